import re,zlib,sys
data=open(sys.argv[1],'rb').read()
# parse objects
objs={}
for m in re.finditer(rb'(\d+) 0 obj(.*?)endobj',data,re.S):
    objs[int(m.group(1))]=m.group(2)
def stream(o):
    m=re.search(rb'stream\r?\n(.*?)\r?\nendstream',o,re.S)
    if not m: return None
    try: return zlib.decompress(m.group(1))
    except Exception: return m.group(1)
# fonts: find objects with /ToUnicode N 0 R
cmaps={}
fontobj={}
for n,o in objs.items():
    m=re.search(rb'/ToUnicode (\d+) 0 R',o)
    if m:
        s=stream(objs[int(m.group(1))])
        mp={}
        for blk in re.finditer(rb'beginbfchar(.*?)endbfchar',s,re.S):
            for a,b in re.findall(rb'<([0-9A-Fa-f]+)>\s*<([0-9A-Fa-f]+)>',blk.group(1)):
                mp[int(a,16)]=bytes.fromhex(b.decode()).decode('utf-16-be','replace')
        for blk in re.finditer(rb'beginbfrange(.*?)endbfrange',s,re.S):
            for a,b,c in re.findall(rb'<([0-9A-Fa-f]+)>\s*<([0-9A-Fa-f]+)>\s*<([0-9A-Fa-f]+)>',blk.group(1)):
                a=int(a,16);b=int(b,16);c=int(c,16)
                for i in range(a,b+1): mp[i]=chr(c+i-a)
        fontobj[n]=mp
# map font names to objects via resource dicts: /F4 12 0 R
names={}
for n,o in objs.items():
    for nm,ref in re.findall(rb'/(F\d+) (\d+) 0 R',o):
        names[nm.decode()]=int(ref)
out=[]
for n,o in sorted(objs.items()):
    s=stream(o)
    if not s or b'BT' not in s: continue
    cur=None; line=[]; lasty=None
    for tok in re.finditer(rb'/(F\d+) [\d.]+ Tf|<([0-9A-Fa-f]+)>\s*Tj|\[(.*?)\]\s*TJ|([\-\d.]+) ([\-\d.]+) Td',s,re.S):
        if tok.group(1):
            cur=fontobj.get(names.get(tok.group(1).decode()),{})
        elif tok.group(2):
            h=tok.group(2).decode()
            for i in range(0,len(h),4):
                line.append(cur.get(int(h[i:i+4],16),'?') if cur is not None else '?')
        elif tok.group(3):
            for h in re.findall(rb'<([0-9A-Fa-f]+)>',tok.group(3)):
                h=h.decode()
                for i in range(0,len(h),4):
                    line.append(cur.get(int(h[i:i+4],16),'?') if cur is not None else '?')
        elif tok.group(4):
            y=float(tok.group(5))
            if abs(y)>1: line.append('\n')
    out.append(''.join(line))
open(sys.argv[2],'w').write('\n\n=====PAGE\n'.join(out))
