"""Pipeline for checks on REGENERATED code (DESIGN.md §5.2): build tl2gen from /repo's working tree, generate a schema
corpus into a scratch module, emit harnesses with hgen, explore them with gose, validate/replay natively."""
import glob
from vlib.core import *

FULL = ["--tl2WhiteList=*", "--generateRandomCode", "--generateByteVersions=*"]
OPTSETS = {
    "full": FULL,
    "default": [],
    "nosanity": FULL + ["--checkLengthSanity=false"],
    "tl2only": ["--tl2WhiteList=*"],
}

GOMOD = """module vmod

go 1.24.0

require github.com/VKCOM/tl v0.0.0

replace github.com/VKCOM/tl => %s
"""


def corpus_f(pattern="*"):
    d = os.path.join(VERIF, "schemas", "f")
    out = []
    for p in sorted(glob.glob(os.path.join(d, pattern))):
        if p.endswith(".tl") or p.endswith(".tl2"):
            out.append((os.path.basename(p).split(".")[0].split("_")[0], [p]))
    return out


def corpus_r(names):
    d = os.path.join(REPO, "internal", "tlcodegen", "test", "tls")
    return [(n.split(".")[0].replace("-", ""), [os.path.join(d, n)]) for n in names if os.path.exists(os.path.join(d, n))]


def setup_module(scr, repo=REPO):
    """builds tl2gen from the working tree and creates the scratch module; returns (tl2gen, moddir) or raises"""
    tl2gen = scr.path("bin", "tl2gen")
    sh(["go", "build", "-o", tl2gen, "./cmd/tl2gen"], cwd=repo, check=True)
    mod = os.path.dirname(scr.path("mod", "go.mod"))
    open(os.path.join(mod, "go.mod"), "w").write(GOMOD % repo)
    shutil.copy(os.path.join(repo, "go.sum"), os.path.join(mod, "go.sum"))
    return tl2gen, mod


def ensure_hgen():
    hgen = os.path.join(VERIF, "bin", "hgen")
    src = os.path.join(VERIF, "gose")
    newest = max(os.path.getmtime(p) for p in glob.glob(os.path.join(src, "cmd", "hgen", "*.go")))
    if not os.path.exists(hgen) or (os.path.getmtime(hgen) < newest and not os.environ.get("VERIF_NO_REBUILD")):
        sh(["go", "build", "-o", hgen, "./cmd/hgen"], cwd=src, check=True)
    return hgen


def generate(tl2gen, mod, key, schemas, opts, language="go"):
    out = os.path.join(mod, key, "gen")
    os.makedirs(os.path.join(mod, key), exist_ok=True)
    cmd = [tl2gen, "--language=" + language, "--outdir=" + out, "--pkgPath=vmod/%s/gen/tl" % key] + list(opts) + list(schemas)
    rc, txt = sh(cmd, cwd=mod)
    if rc != 0 or not os.path.isdir(os.path.join(out, "internal")):
        return None, txt
    return os.path.join(out, "internal"), txt


def run_hgen(mod, key, props, only=None, skip=None, extra=()):
    cmd = [ensure_hgen(), "-dir", mod, "-pkg", "vmod/%s/gen/internal" % key, "-props", ",".join(props)]
    if only:
        cmd += ["-only", ",".join(only)]
    if skip:
        cmd += ["-skip", ",".join(skip)]
    cmd += list(extra)
    return sh(cmd, cwd=mod)


LIB = os.path.join(VERIF, "harness", "gen", "zz_verif_lib.go")


class GenCheck(Check):
    def __init__(self, prop, tier, level="model_checking"):
        super().__init__(prop, tier, level)
        self.tl2gen = self.mod = None
        self.schemas_run = []
        try:
            self.tl2gen, self.mod = setup_module(self.scratch)
        except Exception as e:
            self.problems.append("cannot build tl2gen from the working tree: %s" % str(e)[-600:])

    def run_schema(self, key, schemas, optname, props, regex, params=None, only=None, skip=None, hgen_extra=(), libs=None, ladder=(), extra_gen=(), rawkey=False, **kw):
        if not self.tl2gen:
            return None
        opts = OPTSETS[optname]
        k = key if rawkey else "%s_%s" % (key, optname)
        for (ek, eschemas, eopt) in extra_gen:  # companion generations (e.g. the OLD schema of a compatibility pair), importable by the harness
            epkg, etxt = generate(self.tl2gen, self.mod, ek, eschemas, OPTSETS[eopt])
            if not epkg:
                self.problems.append("generation failed for %s [%s]: %s" % (ek, eopt, etxt[-600:]))
                return None
        pkgdir, txt = generate(self.tl2gen, self.mod, k, schemas, opts)
        if not pkgdir:
            self.problems.append("generation failed for %s [%s]: %s" % (key, optname, txt[-600:]))
            return None
        rc, txt = run_hgen(self.mod, k, props, only=only, skip=skip, extra=hgen_extra)
        if rc != 0:
            self.problems.append("hgen failed for %s [%s]: %s" % (key, optname, txt[-800:]))
            return None
        self.programs += 1
        self.schemas_run.append({"schema": [os.path.relpath(s, "/") for s in schemas], "options": opts})
        gen = {"schemas": list(schemas), "opts": opts, "props": props, "only": only, "skip": skip, "hgen_extra": list(hgen_extra), "key": k, "extra_gen": [[ek, list(es), OPTSETS[eo]] for (ek, es, eo) in extra_gen],
               "libs": [os.path.basename(l) for l in (libs or [LIB])]}
        label = "%s[%s]" % (key, optname)
        st = kw.pop("soft_trunc", "record")
        rep = self.run_pkg(self.mod, "./%s/gen/internal" % k, pkgdir, "internal", libs or [LIB], regex, params=params, label=label, gen=gen, soft_trunc=st, **kw)
        trunc = (rep or {}).get("_truncated") or []
        for step in ladder:
            if not trunc:
                break
            p2 = dict(params or {})
            p2.update(step)
            rx = "^(%s)$" % "|".join(re.escape(n) for n in trunc)
            rep2 = self.run_pkg(self.mod, "./%s/gen/internal" % k, pkgdir, "internal", libs or [LIB], rx, params=p2, label=label, gen=gen, soft_trunc=st, **kw)
            still = (rep2 or {}).get("_truncated") or []
            for n in trunc:
                if n not in still:
                    self.reduced.append({"harness": n, "schema": label, "completed_with": step})
            trunc = still
        if st != "record":
            for n in trunc:
                self.not_covered.append({"harness": n, "schema": label, "reason": "path/wall budget exhausted at the smallest bound"})
        return rep

    def finish(self, **kw):
        self.extra.setdefault("schemas", self.schemas_run)
        self.extra.setdefault("generator", "tl2gen built from /repo's working tree at the start of this run; code regenerated into a scratch module")
        return super().finish(**kw)


def replay_gen(d):
    """re-runs a stored counterexample against code regenerated from the CURRENT tree; exit 1 if it reproduces"""
    meta = json.load(open(os.path.join(d, "meta.json")))
    scr = Scratch()
    try:
        tl2gen, mod = setup_module(scr)
        schemas = [os.path.join(d, "schemas", s) for s in meta["schema_files"]]
        for (ek, es, eopts) in meta.get("extra_gen") or []:
            epkg, etxt = generate(tl2gen, mod, ek, [os.path.join(d, "schemas", os.path.basename(x)) for x in es], eopts)
            if not epkg:
                print("companion generation failed:", etxt[-800:])
                return 2
        pkgdir, txt = generate(tl2gen, mod, meta["key"], schemas, meta["opts"])
        if not pkgdir:
            print("generation failed:", txt[-800:])
            return 2
        rc, txt = run_hgen(mod, meta["key"], meta["props"], only=meta.get("only"), skip=meta.get("skip"), extra=meta.get("hgen_extra") or [])
        if rc != 0:
            print("hgen failed:", txt[-800:])
            return 2
        rts = rt_files("internal", scr)
        repl = {os.path.join(pkgdir, n): p for n, p in rts.items()}
        for l in meta["libs"]:
            repl[os.path.join(pkgdir, l)] = os.path.join(d, "files", l)
        ov = scr.path("overlay.json")
        json.dump({"Replace": repl}, open(ov, "w"))
        cases = os.path.join(d, "cases")
        outp = os.path.join(cases, "cex.out.json")
        if os.path.exists(outp):
            os.remove(outp)
        env = goenv()
        env["VERIF_CASE_DIR"] = cases
        binp = scr.path("bin", "replay.test")
        rc, txt = sh(["go", "test", "-c", "-tags", "verif", "-vet=off", "-overlay", ov, "-o", binp, "./%s/gen/internal" % meta["key"]], cwd=mod, env=env, timeout=1800)
        if rc != 0 or not os.path.exists(binp):
            print("native build failed:", txt[-1500:])
            return 2
        # run under an address-space limit: an allocation counterexample ends the process with "out of memory" instead of exhausting the machine
        rc, txt = sh_limited([binp, "-test.run", "^TestVerifReplay$", "-test.count=1"], cwd=os.path.dirname(binp), env=env, timeout=1800, as_bytes=ALLOC_AS_LIMIT)
        if not os.path.exists(outp) and ("out of memory" in txt or "cannot allocate memory" in txt):
            print("process died: runtime out of memory under RLIMIT_AS=%d (input of %s bytes)" % (ALLOC_AS_LIMIT, "a few"))
            print("REPRODUCED")
            return 1
        if rc != 0 or not os.path.exists(outp):
            print("native run failed:", txt[-1500:])
            return 2
        out = json.load(open(outp))
        print(json.dumps(out))
        if out.get("failed") or out.get("panic"):
            print("REPRODUCED")
            return 1
        print("not reproduced")
        return 0
    finally:
        scr.cleanup()
