"""Driver library for the gose-based checks (see DESIGN.md §4, §10)."""
import base64, json, os, shutil, subprocess, sys, tempfile, time, hashlib, re

VERIF = os.path.dirname(os.path.dirname(os.path.abspath(__file__)))
REPO = os.environ.get("VERIF_REPO", "/repo")
GOBIN = "/root/go/pkg/mod/golang.org/toolchain@v0.0.1-go1.24.0.linux-amd64/bin"


def goenv():
    e = dict(os.environ)
    e["PATH"] = GOBIN + ":" + e.get("PATH", "")
    e.update(GOTOOLCHAIN="local", GOFLAGS="-mod=mod", GOPROXY="off")
    e.pop("GOSUMDB", None)
    return e


def sh(cmd, cwd=None, env=None, timeout=None, check=False):
    try:
        p = subprocess.run(cmd, cwd=cwd, env=env or goenv(), timeout=timeout, stdout=subprocess.PIPE, stderr=subprocess.STDOUT, text=True)
    except subprocess.TimeoutExpired as e:
        if check:
            raise
        return 124, "timed out after %ss: %s\n%s" % (timeout, " ".join(cmd)[:300], (e.stdout or "")[-2000:] if isinstance(e.stdout, str) else "")
    if check and p.returncode != 0:
        raise RuntimeError("command failed: %s\n%s" % (cmd, p.stdout[-4000:]))
    return p.returncode, p.stdout


ALLOC_AS_LIMIT = 6 << 30


def sh_limited(cmd, cwd=None, env=None, timeout=None, as_bytes=None):
    import resource

    def lim():
        if as_bytes:
            resource.setrlimit(resource.RLIMIT_AS, (as_bytes, as_bytes))
    try:
        p = subprocess.run(cmd, cwd=cwd, env=env or goenv(), timeout=timeout, stdout=subprocess.PIPE, stderr=subprocess.STDOUT, text=True, preexec_fn=lim)
    except subprocess.TimeoutExpired:
        return 124, "timed out after %ss" % timeout
    return p.returncode, p.stdout


def ensure_gose():
    gose = os.path.join(VERIF, "bin", "gose")
    src = os.path.join(VERIF, "gose")
    newest = 0
    for root, _, files in os.walk(src):
        for f in files:
            if f.endswith(".go") or f in ("go.mod", "go.sum"):
                newest = max(newest, os.path.getmtime(os.path.join(root, f)))
    if not os.path.exists(gose) or (os.path.getmtime(gose) < newest and not os.environ.get("VERIF_NO_REBUILD")):
        os.makedirs(os.path.join(VERIF, "bin"), exist_ok=True)
        sh(["go", "build", "-o", gose, "./cmd/gose"], cwd=src, check=True)
    return gose


class Scratch:
    def __init__(self):
        self.dir = tempfile.mkdtemp(prefix="verif_")

    def path(self, *a):
        p = os.path.join(self.dir, *a)
        os.makedirs(os.path.dirname(p), exist_ok=True)
        return p

    def cleanup(self):
        shutil.rmtree(self.dir, ignore_errors=True)


def rt_files(pkgname, scratch):
    out = {}
    for tmpl, name in (("zz_verif_rt.go.tmpl", "zz_verif_rt.go"), ("zz_verif_rt_test.go.tmpl", "zz_verif_rt_test.go")):
        s = open(os.path.join(VERIF, "harness", "rt", tmpl)).read().replace("PKGNAME", pkgname)
        p = scratch.path("rt_" + pkgname, name)
        open(p, "w").write(s)
        out[name] = p
    return out


def case_json(harness, inputs, params):
    ins = []
    for i in inputs:
        d = {"kind": i["kind"], "u": i.get("u", 0)}
        if i.get("bytes") is not None:
            d["bytes"] = i["bytes"]  # already base64 (Go json)
        ins.append(d)
    return {"harness": harness, "inputs": ins, "params": params}


class Known:
    def __init__(self):
        p = os.path.join(VERIF, "known_findings.json")
        self.entries = json.load(open(p)) if os.path.exists(p) else []

    def match(self, prop, key):
        for e in self.entries:
            if e.get("property") == prop and e.get("status") == "known" and re.search(e["key"], key):
                return e
        return None


def fmt_inputs(inputs):
    parts = []
    for i in inputs or []:
        if i["kind"] in ("bytes", "string"):
            b = base64.b64decode(i.get("bytes") or "")
            parts.append("%s=%s" % (i["kind"], b.hex()))
        else:
            parts.append("%s=%d" % (i["kind"], i.get("u", 0)))
    return " ".join(parts)


class Check:
    """Accumulates the results of several gose runs for one property and produces verdict + evidence."""

    def __init__(self, prop, tier, level="model_checking"):
        self.prop, self.tier, self.level = prop, tier, level
        self.t0 = time.time()
        self.seed = int(os.environ.get("VERIF_SEED", "0") or 0)
        self.scratch = Scratch()
        self.runs = []          # per harness results
        self.problems = []      # inconclusive reasons
        self.violations = []    # confirmed, unknown to known_findings
        self.known_hits = []
        self.validated = 0
        self.mismatch = []
        self.samples = []
        self.assumptions = []
        self.extra = {}
        self.known = Known()
        self.programs = 0
        self.replay_n = 0
        self.reduced = []      # harnesses completed only at a reduced bound
        self.not_covered = []  # harnesses that did not complete at the smallest bound

    # ---- running the engine on a package of /repo (or a scratch module) with overlay harness files ----
    def run_pkg(self, moddir, pkg_pattern, pkgdir, pkgname, harness_files, regex, params=None, workers=16, wall=None,
                max_models=20, extra_flags=(), label=None, feas_ms=None, oblig_ms=None, expect_covers=True, gen=None, max_paths=None, soft_trunc="record", extra_overlays=None, soft_problem_rx=None, engine_only=False):
        gose = ensure_gose()
        params = params or {}
        rts = rt_files(pkgname, self.scratch)
        overlays = {os.path.join(pkgdir, "zz_verif_rt.go"): rts["zz_verif_rt.go"]}
        test_overlays = dict(overlays)
        test_overlays[os.path.join(pkgdir, "zz_verif_rt_test.go")] = rts["zz_verif_rt_test.go"]
        for hf in harness_files:
            v = os.path.join(pkgdir, os.path.basename(hf))
            overlays[v] = hf
            test_overlays[v] = hf
        for v, real in (extra_overlays or {}).items():
            overlays[v] = real
            test_overlays[v] = real
        out = self.scratch.path("res_%d.json" % len(self.runs))
        cmd = [gose, "run", "-dir", moddir, "-pkg", pkg_pattern, "-tags", "verif", "-harness", regex, "-workers", str(workers), "-models", str(max(0, max_models)), "-out", out]
        for k, v in overlays.items():
            cmd += ["-overlay", "%s=%s" % (k, v)]
        for k, v in params.items():
            cmd += ["-param", "%s=%d" % (k, v)]
        if wall:
            cmd += ["-wall", wall]
        if feas_ms:
            cmd += ["-feas-ms", str(feas_ms)]
        if oblig_ms:
            cmd += ["-oblig-ms", str(oblig_ms)]
        if max_paths:
            cmd += ["-max-paths", str(max_paths)]
        cmd += list(extra_flags)
        rc, txt = sh(cmd, cwd=VERIF)
        sys.stdout.write(txt)
        if rc != 0 or not os.path.exists(out):
            self.problems.append("engine run failed for %s (%s): rc=%d %s" % (pkg_pattern, regex, rc, txt[-800:]))
            return None
        rep = json.load(open(out))
        rep["Harnesses"] = rep.get("Harnesses") or []
        if not rep["Harnesses"]:
            if gen and soft_trunc == "record":
                # the generator emitted no harness of this kind for this schema (no applicable type): a stated gap, not a failure
                self.not_covered.append({"harness": regex, "schema": label or pkg_pattern, "reason": "no applicable type in this schema (no harness generated)"})
            else:
                self.problems.append("no harness matched %s in %s" % (regex, pkg_pattern))
        ctx = dict(moddir=moddir, pkg_pattern=pkg_pattern, pkgdir=pkgdir, pkgname=pkgname, test_overlays=test_overlays, params=params, label=label or pkg_pattern, gen=gen,
                   engine_only=engine_only, extra_flags=list(extra_flags), engine_overlays=dict(overlays))
        rep["_truncated"] = []
        for h in rep["Harnesses"]:
            h["_ctx"] = ctx
            probs = h.get("Problems") or []
            if soft_trunc and probs and (h.get("Truncated") or any("wall budget" in pr for pr in probs)) and all(("truncated" in pr or "wall budget" in pr) for pr in probs) and not (h.get("Unknowns") or []):
                rep["_truncated"].append(h["Name"])
                if soft_trunc == "record":
                    # explored but not exhausted: counted in the statistics, flagged incomplete, listed under not_covered
                    h["_incomplete"] = True
                    self.runs.append(h)
                    self.not_covered.append({"harness": h["Name"], "schema": ctx["label"], "reason": "path/wall budget exhausted after %d paths (violations found so far are still reported)" % h["Paths"]})
                else:
                    h["Models"] = []
                continue
            self.runs.append(h)
            for pr in probs:
                if (soft_problem_rx and re.search(soft_problem_rx, pr)) or (soft_trunc == "record" and pr.startswith("unwind:")):
                    # a stated region the exploration does not cover (recorded, not a success and not an alarm)
                    self.not_covered.append({"harness": h["Name"], "schema": ctx["label"], "reason": pr.split("\n")[0][:300]})
                    continue
                self.problems.append("%s: %s" % (h["Name"], pr.split("\n")[0][:300]))
            for u in h.get("Unknowns") or []:
                self.problems.append("%s: solver unknown on %s" % (h["Name"], u))
            if expect_covers:
                cov = h.get("Covers") or {}
                if not cov and not (h.get("Violations") or []):
                    if soft_trunc == "record":
                        # under this bound no path reached a cover point: listed as not covered; a check in which NO harness reaches one is a failure (finish)
                        self.not_covered.append({"harness": h["Name"], "schema": ctx["label"], "reason": "vacuous under this bound (no cover point witnessed)"})
                    else:
                        self.problems.append("%s: vacuous (no cover point witnessed)" % h["Name"])
        if max_models > 0 or any(h.get("Violations") for h in rep["Harnesses"]):
            self._native(rep["Harnesses"], ctx, max_models)
        return rep

    def _go_test(self, ctx, casedir, isolated=None):
        """builds the package's test binary with the harness overlays and runs it (no dependence on the package directory existing on disk)"""
        n = len(os.listdir(self.scratch.dir))
        ov = self.scratch.path("overlay_%d.json" % n)
        json.dump({"Replace": ctx["test_overlays"]}, open(ov, "w"))
        binp = self.scratch.path("testbin_%d" % n, "verif.test")
        env = goenv()
        rc, txt = sh(["go", "test", "-c", "-tags", "verif", "-vet=off", "-overlay", ov, "-o", binp, ctx["pkg_pattern"]], cwd=ctx["moddir"], env=env, timeout=1200)
        if rc != 0 or not os.path.exists(binp):
            return rc or 1, txt
        env["VERIF_CASE_DIR"] = casedir
        rc, txt = sh([binp, "-test.run", "^TestVerifReplay$", "-test.count=1"], cwd=os.path.dirname(binp), env=env, timeout=1200)
        # allocation counterexamples: one process each, under an address-space limit, so that a multi-gigabyte allocation ends that
        # process ("out of memory") instead of exhausting the machine; such a death is itself the native confirmation
        for name in isolated or []:
            d1 = os.path.join(casedir, "iso_" + name)
            os.makedirs(d1, exist_ok=True)
            shutil.copy(os.path.join(casedir, "iso", name + ".case.json"), os.path.join(d1, name + ".case.json"))
            env1 = dict(env)
            env1["VERIF_CASE_DIR"] = d1
            rc1, txt1 = sh_limited([binp, "-test.run", "^TestVerifReplay$", "-test.count=1"], cwd=os.path.dirname(binp), env=env1, timeout=300, as_bytes=ALLOC_AS_LIMIT)
            op = os.path.join(d1, name + ".out.json")
            if os.path.exists(op):
                shutil.copy(op, os.path.join(casedir, name + ".out.json"))
            elif "out of memory" in txt1 or "cannot allocate memory" in txt1:
                json.dump({"harness": "", "events": [], "observed": None, "failed": ["alloc-bounded-by-input"], "panic": "", "problem": "",
                           "note": "process died: runtime out of memory under RLIMIT_AS=%d" % ALLOC_AS_LIMIT}, open(os.path.join(casedir, name + ".out.json"), "w"))
        return rc, txt

    def _native(self, harnesses, ctx, max_models):
        """native validation of sampled models of passing paths + replay of violations"""
        casedir = self.scratch.path("cases_%d" % len(os.listdir(self.scratch.dir)), "x")
        casedir = os.path.dirname(casedir)
        expect = {}
        isolated = []
        n = 0
        for h in harnesses:
            models = h.get("Models") or []
            idxs = list(range(len(models)))
            if len(idxs) > max_models:
                step = len(idxs) / float(max_models)
                idxs = [int(i * step) for i in range(max_models)]
            for i in idxs:
                name = "m%05d" % n
                n += 1
                json.dump(case_json(h["Name"], models[i], ctx["params"]), open(os.path.join(casedir, name + ".case.json"), "w"))
                expect[name] = ("model", h, i)
            per_key = {}
            if ctx.get("engine_only"):
                # schedule-dependent harness: a native run cannot be forced onto the schedule of the counterexample; the violation is
                # reported from the engine, and its replay script re-runs the engine on the current tree
                for v in h.get("Violations") or []:
                    key = "%s/%s/%s/%s" % (ctx["label"], h["Name"], v["kind"], v["id"])
                    k = self.known.match(self.prop, key)
                    if k:
                        if k not in self.known_hits:
                            self.known_hits.append(k)
                        continue
                    self._write_replay(ctx, h, v, key, {"engine_only": True})
                continue
            for j, v in enumerate(h.get("Violations") or []):
                k = (v.get("kind"), v.get("id"), (v.get("site") or "").split(":")[0])
                per_key[k] = per_key.get(k, 0) + 1
                if per_key[k] > 2:
                    continue  # further counterexamples of the same obligation at the same site: the first two are replayed
                name = "v%05d" % n
                n += 1
                if v.get("id") == "alloc-bounded-by-input":
                    os.makedirs(os.path.join(casedir, "iso"), exist_ok=True)
                    json.dump(case_json(h["Name"], v.get("inputs") or [], ctx["params"]), open(os.path.join(casedir, "iso", name + ".case.json"), "w"))
                    isolated.append(name)
                else:
                    json.dump(case_json(h["Name"], v.get("inputs") or [], ctx["params"]), open(os.path.join(casedir, name + ".case.json"), "w"))
                expect[name] = ("viol", h, j)
        if not expect:
            return
        rc, txt = self._go_test(ctx, casedir, isolated)
        if rc != 0:
            self.problems.append("native replay build/run failed for %s: %s" % (ctx["label"], txt[-1500:]))
            return
        for name, (kind, h, i) in expect.items():
            op = os.path.join(casedir, name + ".out.json")
            if not os.path.exists(op):
                self.problems.append("native replay produced no outcome for %s" % name)
                continue
            out = json.load(open(op))
            if kind == "model":
                ev = [e for e in (h["ModelEvents"][i] or []) if e != "assert:alloc-bounded-by-input"]  # engine-side implicit obligation
                obs = h["ModelObs"][i] or []
                nev = out.get("events") or []
                nobs = out.get("observed") or []
                bad = None
                if out.get("problem"):
                    bad = "native problem: " + out["problem"]
                elif out.get("panic"):
                    bad = "native panic on a path the engine completed: " + out["panic"]
                elif out.get("failed"):
                    bad = "native assertion failure on a path the engine discharged: %s" % out["failed"]
                elif ev != nev:
                    bad = "event sequences differ: engine %s native %s" % (ev, nev)
                else:
                    for a, b in zip(obs, nobs):
                        if a["val"] != "?" and (a["id"] != b[0] or a["val"] != b[1]):
                            bad = "observed value differs at %s: engine %s native %s" % (a["id"], a["val"], b[1])
                            break
                if bad:
                    self.mismatch.append("%s: %s (inputs %s)" % (h["Name"], bad, fmt_inputs(h["Models"][i])))
                else:
                    self.validated += 1
                    if len(self.samples) < 6:
                        self.samples.append({"harness": h["Name"], "kind": "passing path witness (validated natively)", "inputs": fmt_inputs(h["Models"][i]), "events": ev[:12]})
            else:
                v = h["Violations"][i]
                reproduced = False
                if v["kind"] == "panic":
                    reproduced = bool(out.get("panic"))
                else:
                    reproduced = v["id"] in (out.get("failed") or [])
                key = "%s/%s/%s/%s" % (ctx["label"], h["Name"], v["kind"], v["id"])
                if v["kind"] == "panic":
                    # panics are identified by message class and source file (line numbers of generated code may shift)
                    key += ":%s@%s" % (re.sub(r"[^A-Za-z ]+", "", v.get("msg", ""))[:90].strip(), (v.get("site", "") or "").split(":")[0])
                if not reproduced:
                    self.mismatch.append("%s: counterexample for %s did not reproduce natively (inputs %s; native outcome %s)" % (h["Name"], v["id"], fmt_inputs(v.get("inputs")), json.dumps(out)[:300]))
                    continue
                k = self.known.match(self.prop, key)
                if k:
                    if k not in self.known_hits:
                        self.known_hits.append(k)
                    continue
                self._write_replay(ctx, h, v, key, out)

    def _write_replay(self, ctx, h, v, key, out):
        # keep one replay per key
        for old in self.violations:
            if old["key"] == key:
                old["count"] += 1
                return
        d = os.path.join(os.environ.get("VERIF_REPLAY_DIR") or os.path.join(VERIF, "replays"), self.prop, "%d" % self.replay_n)
        self.replay_n += 1
        shutil.rmtree(d, ignore_errors=True)
        os.makedirs(os.path.join(d, "cases"))
        json.dump(case_json(h["Name"], v.get("inputs") or [], ctx["params"]), open(os.path.join(d, "cases", "cex.case.json"), "w"))
        if ctx.get("gen"):
            g = ctx["gen"]
            os.makedirs(os.path.join(d, "schemas"))
            os.makedirs(os.path.join(d, "files"))
            names = []
            for sp in g["schemas"]:
                shutil.copy(sp, os.path.join(d, "schemas", os.path.basename(sp)))
                names.append(os.path.basename(sp))
            for (ek, es, eo) in g.get("extra_gen") or []:
                for sp in es:
                    shutil.copy(sp, os.path.join(d, "schemas", os.path.basename(sp)))
            for virt, real in ctx["test_overlays"].items():
                if os.path.basename(real) in g["libs"]:
                    shutil.copy(real, os.path.join(d, "files", os.path.basename(real)))
            meta = dict(g)
            meta["schema_files"] = names
            del meta["schemas"]
            json.dump(meta, open(os.path.join(d, "meta.json"), "w"), indent=1)
            json.dump({"property": self.prop, "key": key, "violation": v, "native": out}, open(os.path.join(d, "cex.json"), "w"), indent=1)
            open(os.path.join(d, "replay.sh"), "w").write("""#!/bin/sh
# regenerates the code from /repo's current tree and replays the counterexample natively; exits 1 if it reproduces
D="$(cd "$(dirname "$0")" && pwd)"
exec %s/check --replay-gen "$D"
""" % VERIF)
        elif ctx.get("engine_only"):
            repl = {}
            for virt, real in ctx["engine_overlays"].items():
                dst = os.path.join(d, "files", os.path.basename(real))
                os.makedirs(os.path.dirname(dst), exist_ok=True)
                shutil.copy(real, dst)
                repl[virt] = dst
            json.dump({"property": self.prop, "key": key, "violation": v, "engine_only": True, "moddir": ctx["moddir"], "pkg": ctx["pkg_pattern"], "harness": h["Name"],
                       "params": ctx["params"], "extra_flags": ctx["extra_flags"], "overlays": repl}, open(os.path.join(d, "cex.json"), "w"), indent=1)
            open(os.path.join(d, "replay.sh"), "w").write("""#!/bin/sh
# schedule-dependent counterexample: re-runs the symbolic engine on this harness against the current tree; exits 1 if the same obligation is violated again
D="$(cd "$(dirname "$0")" && pwd)"
exec %s/check --replay-engine "$D"
""" % VERIF)
        else:
            repl = {}
            for virt, real in ctx["test_overlays"].items():
                dst = os.path.join(d, "files", os.path.basename(real))
                os.makedirs(os.path.dirname(dst), exist_ok=True)
                shutil.copy(real, dst)
                repl[virt] = dst
            json.dump({"Replace": repl}, open(os.path.join(d, "overlay.json"), "w"))
            json.dump({"property": self.prop, "key": key, "violation": v, "native": out, "moddir": ctx["moddir"], "pkg": ctx["pkg_pattern"]}, open(os.path.join(d, "cex.json"), "w"), indent=1)
            open(os.path.join(d, "replay.sh"), "w").write("""#!/bin/sh
# replays the counterexample natively against the current tree; exits 1 if the violation reproduces
D="$(cd "$(dirname "$0")" && pwd)"
export PATH=%s:$PATH GOTOOLCHAIN=local GOFLAGS=-mod=mod GOPROXY=off
rm -f "$D/cases/cex.out.json"
(cd %s && VERIF_CASE_DIR="$D/cases" go test -tags verif -vet=off -count=1 -overlay "$D/overlay.json" -run '^TestVerifReplay$' %s) || exit 2
cat "$D/cases/cex.out.json"; echo
if grep -q '"failed":\\["' "$D/cases/cex.out.json" || grep -q '"panic":"[^"]' "$D/cases/cex.out.json"; then echo REPRODUCED; exit 1; fi
echo "not reproduced"; exit 0
""" % (GOBIN, ctx["moddir"], ctx["pkg_pattern"]))
        os.chmod(os.path.join(d, "replay.sh"), 0o755)
        self.violations.append({"key": key, "replay": d, "count": 1, "what": "%s %s %s at %s inputs: %s" % (v["kind"], v["id"], v.get("msg", ""), v.get("site", ""), fmt_inputs(v.get("inputs")))})

    # ---- verdict + evidence ----
    def finish(self, bounds=None, outside=None, technique=None):
        states = sum(h["Paths"] for h in self.runs)
        trans = sum(h["Decisions"] for h in self.runs)
        funcs = {}
        stubs = set()
        queries = {"obligations_and_covers": 0}
        asserts = {}
        covers = {}
        solver_s = 0.0
        for h in self.runs:
            funcs.update(h.get("Funcs") or {})
            for s in h.get("Stubs") or []:
                stubs.add(s)
            queries["obligations_and_covers"] += h.get("Obligations", 0)
            asserts[h["Name"]] = h.get("Asserts") or {}
            covers[h["Name"]] = sorted((h.get("Covers") or {}).keys())
        for m in self.mismatch:
            self.problems.append("engine/native mismatch: " + m)
        if self.runs and not any((h.get("Covers") or h.get("Violations")) for h in self.runs):
            self.problems.append("vacuous check: no harness witnessed a cover point")
        if not any(h["Paths"] for h in self.runs):
            self.problems.append("nothing explored: no path of any harness completed")
        if not self.samples:
            for h in self.runs:
                self.samples.append({"harness": h["Name"], "paths": h["Paths"], "obligations": h.get("Asserts")})
                if len(self.samples) >= 4:
                    break
        wall = time.time() - self.t0
        cov = {
            "states": states, "transitions": max(trans, 1 if states else 0), "traces_validated_against_impl": self.validated,
            "samples": self.samples or [{"note": "no run completed"}],
            "harnesses": [{"name": h["Name"], "pkg": h["_ctx"]["label"], "paths": h["Paths"], "outcomes": h["Outcomes"], "forks": h["Forks"],
                           "obligation_ids": h.get("Asserts"), "covers": sorted((h.get("Covers") or {}).keys()), "wall_s": round(h["Wall"] / 1e9, 2),
                           "complete": not h.get("_incomplete", False)} for h in self.runs],
            "functions_encoded": {k: funcs[k] for k in sorted(funcs) if not k.startswith("Verif") and ".verif" not in k and ".Verif" not in k},
            "bounds": bounds or {}, "outside_claim": outside or [], "queries": queries,
            "solvers": ["z3 5.1.0 (z3-new; primary, one process per worker, push/pop)", "z3 4.8.12 and cvc5 1.0 (one-shot re-decision of obligations the primary leaves unknown)"],
            "stubs": sorted(stubs), "inconclusive_reasons": self.problems[:40],
            "known_findings_hit": [k["key"] for k in self.known_hits],
            "reduced_bounds": self.reduced, "not_covered": self.not_covered,
            "technique": technique or "bounded symbolic execution of the real Go SSA (gose) with SMT (z3) deciding every branch feasibility and every assertion",
        }
        if self.level == "translation_validation":
            cov["programs"] = max(self.programs, 0)
            cov["disagreements_checked"] = len(self.violations) + len(self.mismatch)
        cov.update(self.extra)
        ev = {"property_id": self.prop, "tier": self.tier, "seed": self.seed, "level": self.level, "coverage": cov,
              "assumptions": self.assumptions + sorted(stubs), "wall_s": round(wall, 2), "violations": len(self.violations)}
        evdir = os.environ.get("VERIF_EVIDENCE_DIR") or os.path.join(VERIF, "evidence")
        os.makedirs(evdir, exist_ok=True)
        json.dump(ev, open(os.path.join(evdir, self.prop + ".json"), "w"), indent=1)
        self.scratch.cleanup()
        for k in self.known_hits:
            print("KNOWN-FINDING: property=%s %s" % (self.prop, k.get("what", k["key"])))
        if self.violations:
            for v in self.violations:
                print("VIOLATION property=%s replay=%s" % (self.prop, os.path.join(v["replay"], "replay.sh")))
                print("   " + v["what"])
            return 1
        if self.problems:
            for pr in self.problems[:20]:
                print("INCONCLUSIVE property=%s reason=%s" % (self.prop, pr))
            return 2
        print("OK property=%s paths=%d decisions=%d validated_natively=%d wall=%.1fs" % (self.prop, states, trans, self.validated, wall))
        return 0


def replay_engine(d):
    """re-runs the engine on the harness of an engine-only (schedule-dependent) counterexample against the current tree; 1 if the same obligation is violated"""
    meta = json.load(open(os.path.join(d, "cex.json")))
    gose = ensure_gose()
    out = os.path.join(d, "replay_result.json")
    cmd = [gose, "run", "-dir", meta["moddir"], "-pkg", meta["pkg"], "-tags", "verif", "-harness", "^%s$" % meta["harness"], "-workers", "16", "-models", "0", "-out", out, "-wall", "600s", "-stop-on-violation"]
    for k, v in meta["overlays"].items():
        cmd += ["-overlay", "%s=%s" % (k, v)]
    for k, v in meta["params"].items():
        cmd += ["-param", "%s=%d" % (k, v)]
    cmd += list(meta.get("extra_flags") or [])
    rc, txt = sh(cmd, cwd=VERIF, timeout=1800)
    print(txt[-1500:])
    if rc != 0 or not os.path.exists(out):
        return 2
    rep = json.load(open(out))
    for h in rep.get("Harnesses") or []:
        for v in h.get("Violations") or []:
            if v.get("id") == meta["violation"]["id"]:
                print("REPRODUCED (engine): %s %s" % (v["kind"], v["id"]))
                return 1
    print("not reproduced")
    return 0
