# toolchain environment (see DESIGN.md §10)
export PATH=/root/go/pkg/mod/golang.org/toolchain@v0.0.1-go1.24.0.linux-amd64/bin:$PATH
export GOTOOLCHAIN=local GOFLAGS=-mod=mod GOPROXY=off GONOSUMDB=* GONOSUMCHECK=1 GOFLAGS=-mod=mod
