package gose

import (
	"fmt"
	"go/token"
	"go/types"
	"math"
	"strconv"
)

// Native fast path (DESIGN §3.5 mechanism 2): pure stdlib functions evaluated natively when every argument is concrete.
// When an argument is symbolic the intrinsic falls through and the Go source is interpreted (or a contract stub applies).

func concBytes(v Value) ([]byte, bool) {
	switch v := v.(type) {
	case []Value:
		out := make([]byte, len(v))
		for i, e := range v {
			t, ok := e.(*Term)
			if !ok || t.Op != OpConst {
				return nil, false
			}
			out[i] = byte(t.C)
		}
		return out, true
	case *Str:
		if v.IsConc() {
			return []byte(v.S), true
		}
	case nil:
		return nil, true
	}
	return nil, false
}

func concU(v Value) (uint64, bool) {
	t, ok := v.(*Term)
	if !ok || t.Op != OpConst {
		return 0, false
	}
	return t.C, true
}

func (p *Path) bytesVal(b []byte) []Value {
	out := make([]Value, len(b))
	for i, c := range b {
		out[i] = p.st.BV(8, uint64(c))
	}
	return out
}

// errVal builds a *strconv.NumError-like error: the message text is opaque to target code in practice; we return an
// errors.errorString carrying the native message (nil-ness is what callers observe).
func (p *Path) nativeErr(err error) Iface {
	if err == nil {
		return Iface{}
	}
	return p.newErrorString(mkStr(err.Error()))
}

func init() {
	extraIntrinsics = append(extraIntrinsics, func(m map[string]intrinsic) {
		appendNum := func(signed bool) intrinsic {
			return func(p *Path, fr *frame, pos token.Pos, args []Value) Value {
				dst, ok1 := args[0].([]Value)
				if args[0] == nil {
					ok1 = true
				}
				v, ok2 := concU(args[1])
				base, ok3 := concU(args[2])
				if ok1 && !ok2 && ok3 && base == 10 {
					return p.appendVals(fr, dst, p.decimalContract(args[1].(*Term), signed))
				}
				if !ok1 || !ok2 || !ok3 {
					return fallThrough{}
				}
				var txt []byte
				if signed {
					txt = strconv.AppendInt(nil, int64(v), int(base))
				} else {
					txt = strconv.AppendUint(nil, v, int(base))
				}
				return p.appendVals(fr, dst, p.bytesVal(txt))
			}
		}
		m["strconv.AppendInt"] = appendNum(true)
		m["strconv.AppendUint"] = appendNum(false)
		m["strconv.AppendFloat"] = func(p *Path, fr *frame, pos token.Pos, args []Value) Value {
			dst, ok1 := args[0].([]Value)
			if args[0] == nil {
				ok1 = true
			}
			f, ok2 := concU(args[1])
			fm, ok3 := concU(args[2])
			prec, ok4 := concU(args[3])
			bs, ok5 := concU(args[4])
			if !ok1 || !ok2 || !ok3 || !ok4 || !ok5 {
				if ok1 && ok3 && ok4 && ok5 {
					p.unsupported("strconv.AppendFloat of a symbolic float (floats are concrete in JSON harnesses; contract only)")
				}
				return fallThrough{}
			}
			txt := strconv.AppendFloat(nil, math.Float64frombits(f), byte(fm), int(int64(prec)), int(int64(bs)))
			return p.appendVals(fr, dst, p.bytesVal(txt))
		}
		m["strconv.FormatBool"] = func(p *Path, fr *frame, pos token.Pos, args []Value) Value {
			t := args[0].(*Term)
			if t.Op != OpConst {
				return fallThrough{}
			}
			return mkStr(strconv.FormatBool(t.C != 0))
		}
		parseNum := func(signed bool) intrinsic {
			return func(p *Path, fr *frame, pos token.Pos, args []Value) Value {
				s, ok1 := concBytes(args[0])
				base, ok2 := concU(args[1])
				bits, ok3 := concU(args[2])
				if !ok1 && ok2 && ok3 && base == 16 && !signed {
					if r, ok := p.parseHexSymbolic(args[0], int(bits)); ok {
						return r
					}
				}
				if !ok1 && ok2 && ok3 && base == 10 {
					if r, ok := p.parseDecimalContract(args[0], int(bits), signed); ok {
						return r
					}
					p.unsupported("strconv.Parse%s of symbolic text that is not the output of a decimal writer", map[bool]string{true: "Int", false: "Uint"}[signed])
				}
				if !ok1 || !ok2 || !ok3 {
					return fallThrough{}
				}
				if signed {
					n, err := strconv.ParseInt(string(s), int(base), int(bits))
					return Tuple{p.st.BV(64, uint64(n)), p.nativeErr(err)}
				}
				n, err := strconv.ParseUint(string(s), int(base), int(bits))
				return Tuple{p.st.BV(64, n), p.nativeErr(err)}
			}
		}
		m["strconv.ParseInt"] = parseNum(true)
		m["strconv.ParseUint"] = parseNum(false)
		m["strconv.ParseFloat"] = func(p *Path, fr *frame, pos token.Pos, args []Value) Value {
			s, ok1 := concBytes(args[0])
			bits, ok2 := concU(args[1])
			if !ok1 || !ok2 {
				p.unsupported("strconv.ParseFloat of symbolic text")
			}
			f, err := strconv.ParseFloat(string(s), int(bits))
			return Tuple{p.st.BV(64, math.Float64bits(f)), p.nativeErr(err)}
		}
		formatNum := func(signed bool) intrinsic {
			return func(p *Path, fr *frame, pos token.Pos, args []Value) Value {
				v, ok1 := concU(args[0])
				base, ok2 := concU(args[1])
				if ok1 && ok2 {
					if signed {
						return mkStr(strconv.FormatInt(int64(v), int(base)))
					}
					return mkStr(strconv.FormatUint(v, int(base)))
				}
				if ok2 && base == 10 {
					ds := p.decimalContract(args[0].(*Term), signed)
					bs := make([]*Term, len(ds))
					for i, d := range ds {
						bs[i] = d.(*Term)
					}
					return p.strFromTerms(bs)
				}
				return fallThrough{}
			}
		}
		m["strconv.FormatUint"] = formatNum(false)
		m["strconv.FormatInt"] = formatNum(true)
		m["strconv.Itoa"] = func(p *Path, fr *frame, pos token.Pos, args []Value) Value {
			v, ok := concU(args[0])
			if !ok {
				return fallThrough{}
			}
			return mkStr(strconv.Itoa(int(int64(v))))
		}
		m["strconv.Atoi"] = func(p *Path, fr *frame, pos token.Pos, args []Value) Value {
			s, ok := concBytes(args[0])
			if !ok {
				return fallThrough{}
			}
			n, err := strconv.Atoi(string(s))
			return Tuple{p.st.BV(64, uint64(int64(n))), p.nativeErr(err)}
		}
		b2s := func(p *Path, fr *frame, pos token.Pos, args []Value) Value {
			switch b := args[0].(type) {
			case []Value:
				return p.bytesToStr(fr, b, nil)
			case *SymSlice:
				return &Str{Arr: b.Arr, Off: b.Off, Len: b.Len, Max: b.Max}
			case nil:
				return p.emptyStr
			}
			p.unsupported("bytesToStr of %T", args[0])
			return nil
		}
		m["github.com/mailru/easyjson/jlexer.bytesToStr"] = b2s
		// encoding/json keeps scanners in a sync.Pool set up by an initialiser we do not run: allocate a fresh one
		m["encoding/json.newScanner"] = func(p *Path, fr *frame, pos token.Pos, args []Value) Value {
			pk := p.eng.pkgByPath["encoding/json"]
			cell := new(Value)
			*cell = p.zero(pk.Type("scanner").Type())
			if reset := p.eng.prog.LookupMethod(types.NewPointer(pk.Type("scanner").Type()), pk.Pkg, "reset"); reset != nil {
				p.call(fr, pos, reset, []Value{cell})
			}
			return cell
		}
		m["encoding/json.freeScanner"] = func(p *Path, fr *frame, pos token.Pos, args []Value) Value { return nil }
	})
}

var extraIntrinsics []func(map[string]intrinsic)

var _ = types.Typ


// ---- the decimal contract (DESIGN §3.5): strconv.Append{Int,Uint}(v, 10) on a symbolic v yields k digit bytes dig_k_i(|v|)
// (uninterpreted, constrained to '0'..'9', no leading zero), one path per digit count and sign; Parse{Int,Uint} of exactly
// such a digit sequence returns the value (or a range error when it does not fit the requested bit size). ----

var pow10 = func() [21]uint64 {
	var t [21]uint64
	t[0] = 1
	for i := 1; i < 20; i++ {
		t[i] = t[i-1] * 10
	}
	return t
}()

func (p *Path) decimalContract(v *Term, signed bool) []Value {
	st := p.st
	p.eng.noteStub(p.harness, "strconv.AppendInt/AppendUint/ParseInt/ParseUint on symbolic integers: decimal contract (digit strings are uninterpreted, writer and parser are inverse bijections)")
	var out []Value
	mag := v
	if signed && p.decide(st.Cmp(OpSlt, v, st.BV(64, 0))) {
		out = append(out, st.BV(8, '-'))
		mag = st.Neg(v)
	}
	k := 20
	for d := 1; d < 20; d++ {
		if p.decide(st.Cmp(OpUlt, mag, st.BV(64, pow10[d]))) {
			k = d
			break
		}
	}
	if k == 1 {
		// a single digit is determined by the value
		return append(out, st.Add(st.BV(8, '0'), st.Extract(mag, 7, 0)))
	}
	for i := 0; i < k; i++ {
		d := st.UF(fmt.Sprintf("dig_%d_%d", k, i), 8, mag)
		lo := uint64('0')
		if i == 0 && k > 1 {
			lo = '1'
		}
		p.assume(st.And(st.Cmp(OpUle, st.BV(8, lo), d), st.Cmp(OpUle, d, st.BV(8, '9'))))
		out = append(out, d)
	}
	return out
}

func (p *Path) parseDecimalContract(sv Value, bits int, signed bool) (Value, bool) {
	st := p.st
	var bs []*Term
	switch s := sv.(type) {
	case *Str:
		if s.IsArr() {
			return nil, false
		}
		bs = p.strBytes(s)
	case []Value:
		for _, e := range s {
			bs = append(bs, e.(*Term))
		}
	default:
		return nil, false
	}
	neg := false
	if len(bs) > 0 && bs[0].Op == OpConst {
		switch bs[0].C {
		case '-':
			if !signed {
				return nil, false
			}
			neg = true
			bs = bs[1:]
		case '+':
			return nil, false
		}
	}
	k := len(bs)
	if k == 0 || k > 20 {
		return nil, false
	}
	var mag *Term
	isDig := true
	for i, b := range bs {
		if b.Op != OpUF || b.Name != fmt.Sprintf("dig_%d_%d", k, i) || len(b.Args) != 1 {
			isDig = false
			break
		}
		if mag == nil {
			mag = b.Args[0]
		} else if !same(mag, b.Args[0]) {
			isDig = false
			break
		}
	}
	if !isDig {
		// arbitrary (partly) symbolic digits: exact positional value for up to 18 digits (no 64-bit overflow possible)
		if k > 18 {
			return nil, false
		}
		allDigits := st.True
		mag = st.BV(64, 0)
		for _, b := range bs {
			allDigits = st.And(allDigits, st.And(st.Cmp(OpUle, st.BV(8, '0'), b), st.Cmp(OpUle, b, st.BV(8, '9'))))
			mag = st.Add(st.Bin(OpMul, mag, st.BV(64, 10)), st.ZExt(st.Sub(b, st.BV(8, '0')), 64))
		}
		if !p.decide(allDigits) {
			return Tuple{st.BV(64, 0), p.newErrorString(mkStr("strconv: invalid syntax"))}, true
		}
	}
	if bits == 0 {
		bits = 64
	}
	var fits *Term
	switch {
	case !signed && bits == 64:
		fits = st.True
	case !signed:
		fits = st.Cmp(OpUlt, mag, st.BV(64, uint64(1)<<uint(bits)))
	case neg:
		fits = st.Cmp(OpUle, mag, st.BV(64, uint64(1)<<uint(bits-1)))
	default:
		fits = st.Cmp(OpUlt, mag, st.BV(64, uint64(1)<<uint(bits-1)))
	}
	if !p.decide(fits) {
		return Tuple{st.BV(64, 0), p.newErrorString(mkStr("strconv: value out of range"))}, true
	}
	val := mag
	if neg {
		val = st.Neg(mag)
	}
	return Tuple{val, Iface{}}, true
}


// parseHexSymbolic: strconv.ParseUint(s, 16, bits) on (partly) symbolic text of up to 16 hex digits: exact positional value.
func (p *Path) parseHexSymbolic(sv Value, bits int) (Value, bool) {
	st := p.st
	s, ok := sv.(*Str)
	if !ok || s.IsArr() {
		return nil, false
	}
	bs := p.strBytes(s)
	if len(bs) == 0 || len(bs) > 16 {
		return nil, false
	}
	if bits == 0 {
		bits = 64
	}
	all := st.True
	val := st.BV(64, 0)
	for _, b := range bs {
		isDig := st.And(st.Cmp(OpUle, st.BV(8, '0'), b), st.Cmp(OpUle, b, st.BV(8, '9')))
		isLo := st.And(st.Cmp(OpUle, st.BV(8, 'a'), b), st.Cmp(OpUle, b, st.BV(8, 'f')))
		isUp := st.And(st.Cmp(OpUle, st.BV(8, 'A'), b), st.Cmp(OpUle, b, st.BV(8, 'F')))
		all = st.And(all, st.Or(isDig, st.Or(isLo, isUp)))
		nib := st.Ite(isDig, st.Sub(b, st.BV(8, '0')), st.Ite(isLo, st.Sub(b, st.BV(8, 'a'-10)), st.Sub(b, st.BV(8, 'A'-10))))
		val = st.Bin(OpBOr, st.Bin(OpShl, val, st.BV(64, 4)), st.ZExt(nib, 64))
	}
	if !p.decide(all) {
		return Tuple{st.BV(64, 0), p.newErrorString(mkStr("strconv: invalid syntax"))}, true
	}
	if bits < 64 && 4*len(bs) > bits {
		if !p.decide(st.Cmp(OpUlt, val, st.BV(64, uint64(1)<<uint(bits)))) {
			return Tuple{st.BV(64, uint64(1)<<uint(bits) - 1), p.newErrorString(mkStr("strconv: value out of range"))}, true
		}
	}
	return Tuple{val, Iface{}}, true
}
