package gose

import (
	"go/token"
	"go/types"

	"golang.org/x/tools/go/ssa"
)

func (p *Path) callBuiltin(caller *frame, callpos token.Pos, fn *ssa.Builtin, args []Value) Value {
	st := p.st
	switch fn.Name() {
	case "append":
		if len(args) == 1 {
			return args[0]
		}
		var elemT types.Type
		if call, ok := caller.cur.(ssa.CallInstruction); ok {
			if sl, ok := call.Common().Args[0].Type().Underlying().(*types.Slice); ok {
				elemT = sl.Elem()
			}
		}
		var add []Value
		switch a1 := args[1].(type) {
		case *Str:
			for _, b := range p.strBytes(a1) {
				add = append(add, b)
			}
		case []Value:
			add = make([]Value, len(a1))
			for i, v := range a1 {
				add[i] = copyVal(v)
			}
		case *SymSlice:
			add = p.elemsOf(a1)
		default:
			p.unsupported("append of %T", a1)
		}
		var old []Value
		switch a0 := args[0].(type) {
		case []Value:
			old = a0
		case *SymSlice:
			// appending to a read-only input view: allocate a fresh copy (as if cap == len)
			old = p.elemsOf(a0)
			old = old[:len(old):len(old)]
			if len(add) == 0 {
				return a0
			}
		default:
			p.unsupported("append to %T", a0)
		}
		if len(add) == 0 {
			return old
		}
		r := p.appendVals(caller, old, add)
		if cap(r) > len(r) && elemT != nil {
			full := r[:cap(r)]
			for i := len(r); i < len(full); i++ {
				if full[i] == nil {
					full[i] = p.zero(elemT)
				}
			}
		}
		return r
	case "copy":
		src := p.elemsOf(args[1])
		dst, ok := args[0].([]Value)
		if !ok {
			if ss, isSym := args[0].(*SymSlice); isSym {
				// copying into a read-only view is a write
				n := p.concretize(ss.Len, ss.Max, "copy dst")
				if n == 0 || len(src) == 0 {
					return st.BV(64, 0)
				}
				p.unsupported("copy into symbolic input array")
			}
			p.unsupported("copy into %T", args[0])
		}
		n := min(len(dst), len(src))
		tmp := make([]Value, n)
		for i := 0; i < n; i++ {
			tmp[i] = copyVal(src[i])
		}
		copy(dst, tmp)
		return st.BV(64, uint64(n))
	case "close":
		p.chanClose(caller, callpos, args[0].(*Chan))
		return nil
	case "delete":
		m := args[0].(*Map)
		if m != nil {
			p.mapDelete(caller, m, args[1])
		}
		return nil
	case "clear":
		switch a := args[0].(type) {
		case *Map:
			if a != nil {
				a.Entries = nil
			}
		case []Value:
			var elemT types.Type
			if call, ok := caller.cur.(ssa.CallInstruction); ok {
				if sl, ok := call.Common().Args[0].Type().Underlying().(*types.Slice); ok {
					elemT = sl.Elem()
				}
			}
			for i := range a {
				a[i] = p.zero(elemT)
			}
		default:
			p.unsupported("clear of %T", a)
		}
		return nil
	case "print", "println":
		return nil
	case "len":
		return p.sliceLen(args[0])
	case "cap":
		return p.sliceCap(args[0])
	case "min", "max":
		call := caller.cur.(ssa.CallInstruction)
		t := call.Common().Args[0].Type()
		r := args[0]
		for _, a := range args[1:] {
			var less *Term
			if fn.Name() == "min" {
				less = p.binop(caller, callpos, token.LSS, t, a, r).(*Term)
			} else {
				less = p.binop(caller, callpos, token.LSS, t, r, a).(*Term)
			}
			if rs, ok := r.(*Str); ok {
				if p.decide(less) {
					r = a.(*Str)
				} else {
					r = rs
				}
			} else {
				r = st.Ite(less, a.(*Term), r.(*Term))
			}
		}
		return r
	case "panic":
		panic(targetPanic{args[0], p.pos(callpos)})
	case "recover":
		return p.doRecover(caller)
	case "ssa:wrapnilchk":
		recv := args[0]
		if pv, ok := recv.(*Value); ok && pv == nil {
			recvType := args[1].(*Str).S
			methodName := args[2].(*Str).S
			p.runtimePanic(caller, callpos, "value method "+recvType+"."+methodName+" called using nil *"+recvType+" pointer")
		}
		return recv
	case "ssa:deferstack":
		return &caller.defers
	}
	p.unsupported("builtin %s", fn.Name())
	return nil
}
