package gose

import (
	"fmt"
	"go/types"
	"strings"

	"golang.org/x/tools/go/ssa"
)

// Value is an engine value:
//
//	*Term                 bool / intN / uintN / floatN (IEEE bits) / uintptr
//	*Str                  string
//	Struct, Array, Tuple  aggregates (copied on load/store)
//	*Value                pointer (nil pointer is (*Value)(nil))
//	SymPtr                read-only pointer into an input array
//	[]Value               slice over mutable memory (nil slice is []Value(nil))
//	*SymSlice             read-only []byte view of an input array with symbolic bounds
//	Iface                 interface value
//	*ssa.Function, *Closure, *ssa.Builtin   funcs
//	*Map                  map
//	*Chan                 channel
//	UnsafePtr             unsafe.Pointer wrapper
type Value = interface{}

type Struct []Value
type Array []Value
type Tuple []Value

type Iface struct {
	T types.Type
	V Value
}

type Closure struct {
	Fn  *ssa.Function
	Env []Value
}

type SymPtr struct {
	Arr *Term
	Idx *Term
}

// IdxPtr is the address of element Idx (symbolic, already bounds-checked) of a vector of scalars:
// loads are ite chains, stores update every element conditionally — no case split.
type IdxPtr struct {
	Base []Value
	Idx  *Term
}

type UnsafePtr struct {
	V Value
	T types.Type
}

// SymSlice is a read-only byte slice view of a symbolic input array.
type SymSlice struct {
	Arr           *Term
	Off, Len, Cap *Term // 64-bit
	Max           int   // upper bound on Len guaranteed by construction (harness bound)
}

// Str is a string: concrete (S), symbolic bytes with concrete length (Sym), or a view of an input array.
type Str struct {
	S        string
	Sym      []*Term
	Arr      *Term
	Off, Len *Term
	Max      int
}

func (s *Str) IsConc() bool { return s.Sym == nil && s.Arr == nil }
func (s *Str) IsArr() bool  { return s.Arr != nil }

func mkStr(s string) *Str { return &Str{S: s} }

type mapEntry struct {
	k, v Value
	dead bool
}

type Map struct {
	KT      types.Type
	Entries []*mapEntry
}

type Chan struct {
	buf         []Value
	cap         int
	closed      bool
	sendq       []*sendReq // senders blocked on a full / unbuffered channel
	recvWaiting int        // receivers currently blocked on this channel
}

type bad struct{}

func (p *Path) intTerm(w int, v uint64) *Term { return p.st.BV(w, v) }

// basicInfo returns (width, signed, float) for a basic numeric/bool type; width 0 for bool.
func basicInfo(t types.Type) (w int, signed bool, float bool, ok bool) {
	b, isb := t.Underlying().(*types.Basic)
	if !isb {
		return 0, false, false, false
	}
	switch b.Kind() {
	case types.Bool, types.UntypedBool:
		return 0, false, false, true
	case types.Int8:
		return 8, true, false, true
	case types.Int16:
		return 16, true, false, true
	case types.Int32, types.UntypedRune:
		return 32, true, false, true
	case types.Int64, types.Int, types.UntypedInt:
		return 64, true, false, true
	case types.Uint8:
		return 8, false, false, true
	case types.Uint16:
		return 16, false, false, true
	case types.Uint32:
		return 32, false, false, true
	case types.Uint64, types.Uint, types.Uintptr:
		return 64, false, false, true
	case types.Float32:
		return 32, true, true, true
	case types.Float64, types.UntypedFloat:
		return 64, true, true, true
	}
	return 0, false, false, false
}

// zero returns the zero value of type t.
func (p *Path) zero(t types.Type) Value {
	switch t := t.(type) {
	case *types.Basic:
		if t.Kind() == types.UntypedNil {
			panic("untyped nil has no zero value")
		}
		if t.Info()&types.IsString != 0 {
			return p.emptyStr
		}
		if t.Kind() == types.UnsafePointer {
			return UnsafePtr{}
		}
		if t.Info()&types.IsComplex != 0 {
			p.unsupported("complex numbers")
		}
		w, _, _, ok := basicInfo(t)
		if !ok {
			panic(fmt.Sprintf("zero: basic %v", t))
		}
		if w == 0 {
			return p.st.False
		}
		return p.st.BV(w, 0)
	case *types.Pointer:
		return (*Value)(nil)
	case *types.Array:
		a := make(Array, t.Len())
		for i := range a {
			a[i] = p.zero(t.Elem())
		}
		return a
	case *types.Named:
		return p.zero(t.Underlying())
	case *types.Alias:
		return p.zero(types.Unalias(t))
	case *types.Interface:
		return Iface{}
	case *types.Slice:
		return []Value(nil)
	case *types.Struct:
		s := make(Struct, t.NumFields())
		for i := range s {
			s[i] = p.zero(t.Field(i).Type())
		}
		return s
	case *types.Tuple:
		if t.Len() == 1 {
			return p.zero(t.At(0).Type())
		}
		s := make(Tuple, t.Len())
		for i := range s {
			s[i] = p.zero(t.At(i).Type())
		}
		return s
	case *types.Chan:
		return (*Chan)(nil)
	case *types.Map:
		return (*Map)(nil)
	case *types.Signature:
		return (*ssa.Function)(nil)
	case *types.TypeParam:
		panic("zero of type parameter (generic body not instantiated)")
	}
	panic(fmt.Sprintf("zero: unexpected type %T %v", t, t))
}

// copyVal returns a copy of v; aggregates are copied deeply.
func copyVal(v Value) Value {
	switch v := v.(type) {
	case Struct:
		a := make(Struct, len(v))
		for i, x := range v {
			a[i] = copyVal(x)
		}
		return a
	case Array:
		a := make(Array, len(v))
		for i, x := range v {
			a[i] = copyVal(x)
		}
		return a
	case Tuple:
		a := make(Tuple, len(v))
		for i, x := range v {
			a[i] = copyVal(x)
		}
		return a
	}
	return v
}

func isNilFunc(v Value) bool {
	switch f := v.(type) {
	case *ssa.Function:
		return f == nil
	case *Closure:
		return f == nil
	case *ssa.Builtin:
		return f == nil
	case nil:
		return true
	}
	return false
}

func valString(v Value) string {
	var b strings.Builder
	writeVal(&b, v, 0)
	return b.String()
}

func writeVal(b *strings.Builder, v Value, d int) {
	if d > 4 {
		b.WriteString("…")
		return
	}
	switch v := v.(type) {
	case nil:
		b.WriteString("<nil>")
	case *Term:
		b.WriteString(v.String())
	case *Str:
		if v.IsConc() {
			fmt.Fprintf(b, "%q", v.S)
		} else if v.Sym != nil {
			fmt.Fprintf(b, "symstr[%d]", len(v.Sym))
		} else {
			fmt.Fprintf(b, "arrstr(%s,%s,%s)", v.Arr, v.Off, v.Len)
		}
	case Struct:
		b.WriteString("{")
		for i, x := range v {
			if i > 0 {
				b.WriteString(", ")
			}
			writeVal(b, x, d+1)
		}
		b.WriteString("}")
	case Array:
		b.WriteString("[")
		for i, x := range v {
			if i > 0 {
				b.WriteString(", ")
			}
			writeVal(b, x, d+1)
		}
		b.WriteString("]")
	case Tuple:
		b.WriteString("(")
		for i, x := range v {
			if i > 0 {
				b.WriteString(", ")
			}
			writeVal(b, x, d+1)
		}
		b.WriteString(")")
	case []Value:
		fmt.Fprintf(b, "slice[%d]", len(v))
	case *SymSlice:
		fmt.Fprintf(b, "symslice(%s,%s,%s)", v.Arr, v.Off, v.Len)
	case *Value:
		if v == nil {
			b.WriteString("nilptr")
		} else {
			b.WriteString("&")
			writeVal(b, *v, d+1)
		}
	case Iface:
		if v.T == nil {
			b.WriteString("nil-iface")
		} else {
			fmt.Fprintf(b, "iface(%s:", v.T)
			writeVal(b, v.V, d+1)
			b.WriteString(")")
		}
	case *ssa.Function:
		if v == nil {
			b.WriteString("nilfunc")
		} else {
			b.WriteString(v.String())
		}
	case *Closure:
		b.WriteString("closure " + v.Fn.String())
	case *Map:
		if v == nil {
			b.WriteString("nilmap")
		} else {
			fmt.Fprintf(b, "map[%d]", len(v.Entries))
		}
	default:
		fmt.Fprintf(b, "%T", v)
	}
}
