package gose

import (
	"go/token"
	"go/types"

	"golang.org/x/tools/go/ssa"
)

// Minimal sequential models of synchronisation; the cooperative scheduler (goroutines) is layered on top in sched2.go.

type sched struct {
	locked map[*Value]int // mutex -> 1 write-locked, -n read-locked... (n readers as negative count)
}

func (p *Path) sch() *sched {
	if p.sched == nil {
		p.sched = &sched{locked: map[*Value]int{}}
	}
	return p.sched
}

func (p *Path) mutexLock(fr *frame, m Value, read bool) {
	mu := m.(*Value)
	s := p.sch()
	for {
		st := s.locked[mu]
		if read && st <= 0 {
			s.locked[mu] = st - 1
			return
		}
		if !read && st == 0 {
			s.locked[mu] = 1
			return
		}
		p.block(fr, "mutex")
	}
}

func (p *Path) mutexTryLock(fr *frame, m Value) bool {
	mu := m.(*Value)
	s := p.sch()
	if s.locked[mu] == 0 {
		s.locked[mu] = 1
		return true
	}
	return false
}

func (p *Path) mutexUnlock(fr *frame, pos token.Pos, m Value, read bool) {
	mu := m.(*Value)
	s := p.sch()
	st := s.locked[mu]
	if read {
		if st >= 0 {
			panic(targetPanic{Iface{T: types.Typ[types.String], V: mkStr("sync: RUnlock of unlocked RWMutex")}, p.pos(pos)})
		}
		s.locked[mu] = st + 1
	} else {
		if st != 1 {
			panic(targetPanic{Iface{T: types.Typ[types.String], V: mkStr("sync: unlock of unlocked mutex")}, p.pos(pos)})
		}
		s.locked[mu] = 0
	}
	p.wakeAll()
}

func (p *Path) block(fr *frame, why string) {
	p.abort("unsupported", "goroutine would block on %s (no scheduler)", why)
}
func (p *Path) wakeAll()          {}
func (p *Path) yield(fr *frame)   {}
func (p *Path) finishSched()      {}
func (p *Path) spawn(fr *frame, pos token.Pos, fn Value, args []Value) {
	p.unsupported("go statement at %s", p.pos(pos))
}
func (p *Path) chanSend(fr *frame, c *Chan, v Value) { p.unsupported("channel send") }
func (p *Path) chanRecv(fr *frame, c *Chan, commaOk bool, t types.Type) Value {
	p.unsupported("channel receive")
	return nil
}
func (p *Path) chanClose(fr *frame, pos token.Pos, c *Chan) { p.unsupported("channel close") }
func (p *Path) selectStmt(fr *frame, instr *ssa.Select) Value {
	p.unsupported("select")
	return nil
}
func (p *Path) wgAdd(fr *frame, pos token.Pos, wg Value, d *Term) { p.unsupported("WaitGroup") }
func (p *Path) wgWait(fr *frame, wg Value)                        { p.unsupported("WaitGroup") }
func (p *Path) condWait(fr *frame, pos token.Pos, c Value)        { p.unsupported("Cond.Wait") }
func (p *Path) condSignal(fr *frame, c Value, all bool)           {}
