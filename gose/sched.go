package gose

import (
	"fmt"
	"go/token"
	"go/types"

	"golang.org/x/tools/go/ssa"
)

// Cooperative goroutines (DESIGN §3.6). Each target goroutine runs on its own Go goroutine, but only the holder of the
// baton executes; control changes hands only at synchronisation operations (mutex, channel, cond, select, WaitGroup) and
// when a goroutine blocks or ends. Which runnable goroutine continues is a decision point of the path (explored
// exhaustively up to a preemption bound). This gives sequentially consistent interleavings at lock granularity.

type gor struct {
	id     int
	wake   chan struct{}
	done   bool
	ready  func() bool // nil = runnable; otherwise blocked until ready() holds
	why    string
	depth  int
	top    *frame
	isMain bool
}

type sched struct {
	locked   map[*Value]int // mutex -> 1 write-locked, -n read-locked
	gs       []*gor
	cur      *gor
	abort    interface{} // pathEnd / targetPanic / engine panic to be re-raised on the main goroutine
	dying    bool
	preempts int
	condQ    map[*Value][]*gor
	condSig  map[*gor]bool
	wg       map[*Value]int64
	onQuiet  []Value
}

type dieNow struct{}

func (p *Path) sch() *sched {
	if p.sched == nil {
		main := &gor{id: 0, wake: make(chan struct{}, 1), isMain: true}
		p.sched = &sched{locked: map[*Value]int{}, gs: []*gor{main}, cur: main, condQ: map[*Value][]*gor{}, condSig: map[*gor]bool{}, wg: map[*Value]int64{}}
	}
	return p.sched
}

func (p *Path) maxPreempt() int {
	if v, ok := p.eng.cfg.Params["preempt"]; ok {
		return v
	}
	return 2
}

// choose: an n-way scheduler decision recorded in the decision vector (no solver involved).
func (p *Path) choose(n int) int {
	if n <= 1 {
		return 0
	}
	p.res.Decisions++
	i := len(p.trace)
	if i < len(p.prefix) {
		d := p.prefix[i]
		p.trace = append(p.trace, d)
		return int(d.K)
	}
	for k := n - 1; k >= 1; k-- {
		alt := make([]Decision, i+1)
		copy(alt, p.trace)
		alt[i] = Decision{Forced: true, K: uint64(k), HasK: true}
		p.pending = append(p.pending, alt)
	}
	p.res.Forks += n - 1
	p.trace = append(p.trace, Decision{Forced: true, K: 0, HasK: true})
	return 0
}

func (s *sched) runnable(except *gor) []*gor {
	var out []*gor
	for _, g := range s.gs {
		if g.done || g == except {
			continue
		}
		if g.ready == nil || g.ready() {
			out = append(out, g)
		}
	}
	return out
}

// switchTo hands the baton to next and parks the current goroutine until it is woken again.
func (p *Path) switchTo(next *gor) {
	s := p.sched
	cur := s.cur
	if next == cur {
		return
	}
	cur.depth, cur.top = p.depth, p.top
	s.cur = next
	next.ready = nil
	next.wake <- struct{}{}
	<-cur.wake
	p.resumed(cur)
}

func (p *Path) resumed(g *gor) {
	s := p.sched
	p.depth, p.top = g.depth, g.top
	if s.dying && !g.isMain {
		panic(dieNow{})
	}
	if g.isMain && s.abort != nil {
		a := s.abort
		s.abort = nil
		panic(a)
	}
}

// yield: a scheduling point where the current goroutine stays runnable.
func (p *Path) yield(fr *frame) {
	if p.sched == nil || len(p.sched.gs) == 1 || p.spec {
		return
	}
	s := p.sched
	others := s.runnable(s.cur)
	if len(others) == 0 || s.preempts >= p.maxPreempt() {
		return
	}
	k := p.choose(len(others) + 1)
	if k == 0 {
		return
	}
	s.preempts++
	p.switchTo(others[k-1])
}

// yieldVoluntary: an explicit yield written in the harness (verifYield): any runnable goroutine (or the current one) continues;
// it is a scheduling decision of the program itself and does not count against the bound on involuntary switches.
func (p *Path) yieldVoluntary(fr *frame) {
	if p.sched == nil || len(p.sched.gs) == 1 || p.spec {
		return
	}
	s := p.sched
	others := s.runnable(s.cur)
	if len(others) == 0 {
		return
	}
	k := p.choose(len(others) + 1)
	if k == 0 {
		return
	}
	p.switchTo(others[k-1])
}

// block parks the current goroutine until ready() holds.
func (p *Path) block(fr *frame, ready func() bool, why string) {
	if p.spec {
		panic(specAbort{})
	}
	s := p.sch()
	cur := s.cur
	for !ready() {
		cur.ready, cur.why = ready, why
		others := s.runnable(cur)
		if len(others) == 0 {
			p.deadlock()
		}
		p.switchTo(others[p.choose(len(others))])
	}
	cur.ready = nil
}

// deadlock: every goroutine is blocked (or done). The path ends QUIESCENT after the registered quiescence checks.
func (p *Path) deadlock() {
	s := p.sched
	var why []string
	for _, g := range s.gs {
		if !g.done {
			why = append(why, fmt.Sprintf("g%d:%s", g.id, g.why))
		}
	}
	p.raiseOnMain(pathEnd{"quiescent", fmt.Sprintf("all goroutines blocked (%v)", why)})
}

// raiseOnMain ends the path with r; when called on a secondary goroutine the baton goes to main, which re-raises.
func (p *Path) raiseOnMain(r interface{}) {
	s := p.sched
	if s.cur.isMain {
		panic(r)
	}
	s.abort = r
	main := s.gs[0]
	cur := s.cur
	cur.done = true
	s.cur = main
	main.wake <- struct{}{}
	panic(dieNow{}) // unwinds this goroutine's interpreter stack
}

func (p *Path) spawn(fr *frame, pos token.Pos, fn Value, args []Value) {
	s := p.sch()
	g := &gor{id: len(s.gs), wake: make(chan struct{}, 1)}
	s.gs = append(s.gs, g)
	if len(s.gs) > 16 {
		p.unsupported("more than 16 goroutines")
	}
	go func() {
		<-g.wake
		defer func() {
			r := recover()
			if _, die := r.(dieNow); die {
				return
			}
			if r != nil {
				// uncaught target panic, path end or engine error inside a goroutine: re-raise on main
				if tp, ok := r.(targetPanic); ok {
					r = tp
				}
				g.done = true
				func() {
					defer func() { recover() }()
					p.raiseOnMain(r)
				}()
				return
			}
		}()
		if s.dying {
			return
		}
		p.depth, p.top = 0, nil
		p.call(nil, pos, fn, args)
		g.done = true
		// goroutine finished: pass the baton on
		others := s.runnable(g)
		if len(others) == 0 {
			func() {
				defer func() { recover() }()
				p.deadlock()
			}()
			return
		}
		next := others[p.choose(len(others))]
		s.cur = next
		next.ready = nil
		next.wake <- struct{}{}
	}()
}

// finishSched is called when the harness function returns (Go semantics: the program ends, other goroutines die).
func (p *Path) finishSched() { p.killGoroutines() }

func (p *Path) killGoroutines() {
	s := p.sched
	if s == nil {
		return
	}
	s.dying = true
	for _, g := range s.gs {
		if !g.isMain && !g.done {
			g.done = true
			select {
			case g.wake <- struct{}{}:
			default:
			}
		}
	}
}

func (p *Path) wakeAll() {}

// ---- mutexes ----

func (p *Path) mutexLock(fr *frame, m Value, read bool) {
	mu := m.(*Value)
	s := p.sch()
	p.yield(fr)
	free := func() bool {
		st := s.locked[mu]
		if read {
			return st <= 0
		}
		return st == 0
	}
	if !free() {
		p.block(fr, free, "mutex")
	}
	if read {
		s.locked[mu]--
	} else {
		s.locked[mu] = 1
	}
}

func (p *Path) mutexTryLock(fr *frame, m Value) bool {
	mu := m.(*Value)
	s := p.sch()
	if s.locked[mu] == 0 {
		s.locked[mu] = 1
		return true
	}
	return false
}

func (p *Path) mutexUnlock(fr *frame, pos token.Pos, m Value, read bool) {
	mu := m.(*Value)
	s := p.sch()
	st := s.locked[mu]
	if read {
		if st >= 0 {
			panic(targetPanic{Iface{T: types.Typ[types.String], V: mkStr("sync: RUnlock of unlocked RWMutex")}, p.pos(pos)})
		}
		s.locked[mu] = st + 1
	} else {
		if st != 1 {
			panic(targetPanic{Iface{T: types.Typ[types.String], V: mkStr("sync: unlock of unlocked mutex")}, p.pos(pos)})
		}
		s.locked[mu] = 0
	}
	p.yield(fr)
}

// ---- condition variables ----

func condLocker(c Value) Value {
	st := (*c.(*Value)).(Struct)
	for _, f := range st {
		if itf, ok := f.(Iface); ok && itf.T != nil {
			return itf.V
		}
	}
	return nil
}

func (p *Path) condWait(fr *frame, pos token.Pos, c Value) {
	s := p.sch()
	cv := c.(*Value)
	l := condLocker(c)
	if l == nil {
		p.unsupported("sync.Cond without a Locker")
	}
	p.mutexUnlockQuiet(l)
	g := s.cur
	s.condQ[cv] = append(s.condQ[cv], g)
	p.block(fr, func() bool { return s.condSig[g] }, "cond")
	delete(s.condSig, g)
	p.mutexLock(fr, l, false)
}

func (p *Path) mutexUnlockQuiet(m Value) {
	mu := m.(*Value)
	p.sch().locked[mu] = 0
}

func (p *Path) condSignal(fr *frame, c Value, all bool) {
	s := p.sch()
	cv := c.(*Value)
	q := s.condQ[cv]
	if len(q) == 0 {
		return
	}
	if all {
		for _, g := range q {
			s.condSig[g] = true
		}
		s.condQ[cv] = nil
		return
	}
	s.condSig[q[0]] = true
	s.condQ[cv] = q[1:]
}

// ---- wait groups ----

func (p *Path) wgAdd(fr *frame, pos token.Pos, wg Value, d *Term) {
	s := p.sch()
	k := wg.(*Value)
	if d.Op != OpConst {
		p.unsupported("WaitGroup.Add with a symbolic delta")
	}
	s.wg[k] += sext64(d.C, d.W)
	if s.wg[k] < 0 {
		panic(targetPanic{Iface{T: types.Typ[types.String], V: mkStr("sync: negative WaitGroup counter")}, p.pos(pos)})
	}
}

func (p *Path) wgWait(fr *frame, wg Value) {
	s := p.sch()
	k := wg.(*Value)
	p.yield(fr)
	p.block(fr, func() bool { return s.wg[k] == 0 }, "waitgroup")
}

// ---- channels ----

type sendReq struct {
	v     Value
	taken bool
	g     *gor
}

func (p *Path) chanSend(fr *frame, c *Chan, v Value) {
	if c == nil {
		p.block(fr, func() bool { return false }, "send on nil channel")
	}
	p.yield(fr)
	if c.closed {
		panic(targetPanic{Iface{T: types.Typ[types.String], V: mkStr("send on closed channel")}, "chan send"})
	}
	if len(c.buf) < c.cap {
		c.buf = append(c.buf, copyVal(v))
		return
	}
	req := &sendReq{v: copyVal(v), g: p.sch().cur}
	c.sendq = append(c.sendq, req)
	p.block(fr, func() bool { return req.taken || c.closed }, "chan send")
	if !req.taken {
		panic(targetPanic{Iface{T: types.Typ[types.String], V: mkStr("send on closed channel")}, "chan send"})
	}
}

func (c *Chan) recvReady() bool { return len(c.buf) > 0 || len(c.sendq) > 0 || c.closed }

func (c *Chan) take() (Value, bool) {
	if len(c.buf) > 0 {
		v := c.buf[0]
		c.buf = c.buf[1:]
		if len(c.sendq) > 0 { // a blocked sender moves into the freed buffer slot
			r := c.sendq[0]
			c.sendq = c.sendq[1:]
			c.buf = append(c.buf, r.v)
			r.taken = true
		}
		return v, true
	}
	if len(c.sendq) > 0 {
		r := c.sendq[0]
		c.sendq = c.sendq[1:]
		r.taken = true
		return r.v, true
	}
	return nil, false // closed
}

func (p *Path) chanRecv(fr *frame, c *Chan, commaOk bool, t types.Type) Value {
	if c == nil {
		p.block(fr, func() bool { return false }, "receive from nil channel")
	}
	p.yield(fr)
	if !c.recvReady() {
		c.recvWaiting++
		p.block(fr, c.recvReady, "chan receive")
		c.recvWaiting--
	}
	v, ok := c.take()
	if !ok {
		if commaOk {
			v = p.zero(t.(*types.Tuple).At(0).Type())
		} else {
			v = p.zero(t)
		}
	}
	if commaOk {
		return Tuple{v, p.st.Bool(ok)}
	}
	return v
}

func (p *Path) chanClose(fr *frame, pos token.Pos, c *Chan) {
	if c == nil {
		panic(targetPanic{Iface{T: types.Typ[types.String], V: mkStr("close of nil channel")}, p.pos(pos)})
	}
	if c.closed {
		panic(targetPanic{Iface{T: types.Typ[types.String], V: mkStr("close of closed channel")}, p.pos(pos)})
	}
	c.closed = true
}

func (p *Path) selectStmt(fr *frame, instr *ssa.Select) Value {
	p.yield(fr)
	type st struct {
		c    *Chan
		send bool
		v    Value
	}
	var states []st
	for _, s := range instr.States {
		c, _ := fr.get(s.Chan).(*Chan)
		x := st{c: c, send: s.Dir == types.SendOnly}
		if x.send {
			x.v = fr.get(s.Send)
		}
		states = append(states, x)
	}
	readyIdx := func() []int {
		var r []int
		for i, s := range states {
			if s.c == nil {
				continue
			}
			if s.send {
				if s.c.closed || len(s.c.buf) < s.c.cap || s.c.recvWaiting > 0 {
					r = append(r, i)
				}
			} else if s.c.recvReady() {
				r = append(r, i)
			}
		}
		return r
	}
	r := readyIdx()
	if len(r) == 0 {
		if !instr.Blocking {
			return p.selectResult(instr, -1, nil, false)
		}
		for _, s := range states {
			if s.c != nil && !s.send {
				s.c.recvWaiting++
			}
		}
		p.block(fr, func() bool { return len(readyIdx()) > 0 }, "select")
		for _, s := range states {
			if s.c != nil && !s.send {
				s.c.recvWaiting--
			}
		}
		r = readyIdx()
	}
	i := r[p.choose(len(r))]
	s := states[i]
	if s.send {
		if s.c.closed {
			panic(targetPanic{Iface{T: types.Typ[types.String], V: mkStr("send on closed channel")}, "select"})
		}
		if len(s.c.buf) < s.c.cap {
			s.c.buf = append(s.c.buf, copyVal(s.v))
		} else {
			// hand-off to a receiver parked in a select: buffer it for the receiver to pick up
			s.c.buf = append(s.c.buf, copyVal(s.v))
		}
		return p.selectResult(instr, i, nil, false)
	}
	v, ok := s.c.take()
	return p.selectResult(instr, i, v, ok)
}

// selectResult builds the (index, recvOk, recv_0, ..., recv_n-1) tuple of an ssa.Select.
func (p *Path) selectResult(instr *ssa.Select, idx int, v Value, ok bool) Value {
	tup := instr.Type().(*types.Tuple)
	out := make(Tuple, tup.Len())
	out[0] = p.st.BV(64, uint64(int64(idx)))
	out[1] = p.st.Bool(ok)
	k := 2
	for i, s := range instr.States {
		if s.Dir == types.RecvOnly {
			if i == idx && ok {
				out[k] = v
			} else {
				out[k] = p.zero(tup.At(k).Type())
			}
			k++
		}
	}
	return out
}
