package gose

import (
	"fmt"
	"go/token"
	"go/types"
	"hash/crc32"
	"math/bits"
	"strings"

	"golang.org/x/tools/go/ssa"
)

type intrinsic func(p *Path, fr *frame, pos token.Pos, args []Value) Value

func (p *Path) concInt(v Value, what string) int {
	t := v.(*Term)
	if t.Op != OpConst {
		p.unsupported("%s must be concrete", what)
	}
	return int(sext64(t.C, t.W))
}

func (p *Path) concString(v Value, what string) string {
	s := v.(*Str)
	if !s.IsConc() {
		p.unsupported("%s must be a concrete string", what)
	}
	return s.S
}

func builtinIntrinsics() map[string]intrinsic {
	m := map[string]intrinsic{}

	// ---- harness primitives (matched by bare name in any package) ----
	scalar := func(kind string, w int) intrinsic {
		return func(p *Path, fr *frame, pos token.Pos, args []Value) Value {
			return p.newInputScalar(kind, w)
		}
	}
	m["@verifU8"] = scalar("u8", 8)
	m["@verifU16"] = scalar("u16", 16)
	m["@verifU32"] = scalar("u32", 32)
	m["@verifU64"] = scalar("u64", 64)
	m["@verifI32"] = scalar("u32", 32)
	m["@verifI64"] = scalar("u64", 64)
	m["@verifInt"] = scalar("u64", 64)
	m["@verifF32"] = scalar("u32", 32)
	m["@verifF64"] = scalar("u64", 64)
	m["@verifF64bits"] = func(p *Path, fr *frame, pos token.Pos, args []Value) Value { return args[0] }
	m["@verifF32bits"] = func(p *Path, fr *frame, pos token.Pos, args []Value) Value { return args[0] }
	m["@verifF64frombits"] = func(p *Path, fr *frame, pos token.Pos, args []Value) Value { return args[0] }
	m["@verifBool"] = func(p *Path, fr *frame, pos token.Pos, args []Value) Value {
		t := p.newInputScalar("bool", 0)
		return t
	}
	m["@verifBytes"] = func(p *Path, fr *frame, pos token.Pos, args []Value) Value {
		max := p.concInt(args[0], "verifBytes bound")
		arr, n := p.newInputBytes("bytes", max)
		return &SymSlice{Arr: arr, Off: p.st.BV(64, 0), Len: n, Cap: n, Max: max}
	}
	m["@verifString"] = func(p *Path, fr *frame, pos token.Pos, args []Value) Value {
		max := p.concInt(args[0], "verifString bound")
		arr, n := p.newInputBytes("string", max)
		return &Str{Arr: arr, Off: p.st.BV(64, 0), Len: n, Max: max}
	}
	// verifStringN(n) / verifBytesN(n): arbitrary content of concrete length n
	m["@verifStringN"] = func(p *Path, fr *frame, pos token.Pos, args []Value) Value {
		n := p.concInt(args[0], "verifStringN length")
		bs := p.newInputFixed("string", n)
		if n == 0 {
			return p.emptyStr
		}
		return &Str{Sym: append([]*Term(nil), bs...)}
	}
	m["@verifBytesN"] = func(p *Path, fr *frame, pos token.Pos, args []Value) Value {
		n := p.concInt(args[0], "verifBytesN length")
		bs := p.newInputFixed("bytes", n)
		out := make([]Value, n)
		for i := range out {
			out[i] = bs[i]
		}
		return out
	}
	// verifLen(max): a length 0..max, concretised (one path per value)
	m["@verifLen"] = func(p *Path, fr *frame, pos token.Pos, args []Value) Value {
		max := p.concInt(args[0], "verifLen bound")
		// optional global size budget B: the sum of all verifLen results on a path is at most B
		if b, ok := p.eng.cfg.Params["B"]; ok {
			if !p.budgetInit {
				p.budgetInit, p.budget = true, b
			}
			if max > p.budget {
				max = p.budget
			}
			t := p.newInputScalar("u64", 64)
			p.assume(p.st.Cmp(OpUle, t, p.st.BV(64, uint64(max))))
			k := p.concretize(t, max, "verifLen")
			p.budget -= k
			return p.st.BV(64, uint64(k))
		}
		t := p.newInputScalar("u64", 64)
		p.assume(p.st.Cmp(OpUle, t, p.st.BV(64, uint64(max))))
		k := p.concretize(t, max, "verifLen")
		return p.st.BV(64, uint64(k))
	}
	// verifChoice(n): concrete choice 0..n-1 (one path per value)
	m["@verifChoice"] = func(p *Path, fr *frame, pos token.Pos, args []Value) Value {
		n := p.concInt(args[0], "verifChoice bound")
		t := p.newInputScalar("u64", 64)
		p.assume(p.st.Cmp(OpUlt, t, p.st.BV(64, uint64(n))))
		k := p.concretize(t, n-1, "verifChoice")
		return p.st.BV(64, uint64(k))
	}
	m["@verifAssume"] = func(p *Path, fr *frame, pos token.Pos, args []Value) Value {
		c := args[0].(*Term)
		if c.IsTrue() {
			return nil
		}
		if c.IsFalse() {
			p.abort("assumefalse", "assumption false")
		}
		// keep only the side where c holds; no fork needed
		p.assume(c)
		if !p.feasible(p.st.True) {
			p.abort("assumefalse", "assumption infeasible")
		}
		return nil
	}
	m["@verifAssert"] = func(p *Path, fr *frame, pos token.Pos, args []Value) Value {
		p.doAssert(args[0].(*Term), p.concString(args[1], "assert id"), p.pos(pos))
		return nil
	}
	m["@verifCover"] = func(p *Path, fr *frame, pos token.Pos, args []Value) Value {
		p.doCover(p.concString(args[0], "cover id"))
		return nil
	}
	m["@verifParam"] = func(p *Path, fr *frame, pos token.Pos, args []Value) Value {
		name := p.concString(args[0], "param name")
		def := p.concInt(args[1], "param default")
		if v, ok := p.eng.cfg.Params[name]; ok {
			def = v
		}
		return p.st.BV(64, uint64(def))
	}
	// verifAllocCheck(v): native-only twin of the allocation-site obligation (see the runtime template)
	m["@verifAllocCheck"] = func(p *Path, fr *frame, pos token.Pos, args []Value) Value { return nil }
	// verifCallDepth() int: the current call depth (natively: the number of logical stack frames)
	m["@verifCallDepth"] = func(p *Path, fr *frame, pos token.Pos, args []Value) Value {
		return p.st.BV(64, uint64(p.depth))
	}
	// verifConcretize(x, max) int: case split an int value
	m["@verifConcretize"] = func(p *Path, fr *frame, pos token.Pos, args []Value) Value {
		max := p.concInt(args[1], "bound")
		k := p.concretize(args[0].(*Term), max, "verifConcretize")
		return p.st.BV(64, uint64(k))
	}
	// verifAllocLimit(n): from now on every make/append growth must request <= n elements
	m["@verifAllocLimit"] = func(p *Path, fr *frame, pos token.Pos, args []Value) Value {
		p.allocLimit = args[0].(*Term)
		return nil
	}
	m["@verifObserveBytes"] = func(p *Path, fr *frame, pos token.Pos, args []Value) Value {
		id := p.concString(args[0], "observe id")
		p.event("obs:" + id)
		p.obsList = append(p.obsList, obsRec{id, args[1]})
		return nil
	}
	m["@verifObserveU64"] = func(p *Path, fr *frame, pos token.Pos, args []Value) Value {
		id := p.concString(args[0], "observe id")
		p.event("obs:" + id)
		p.obsList = append(p.obsList, obsRec{id, args[1]})
		return nil
	}
	m["@verifObserveBool"] = m["@verifObserveU64"]
	m["@verifObserveString"] = m["@verifObserveBytes"]
	// verifBytesEq(a, b []byte) bool : single-term equality (no forking)
	m["@verifBytesEq"] = func(p *Path, fr *frame, pos token.Pos, args []Value) Value {
		return p.seqEq(args[0], args[1])
	}
	m["@verifStrEq"] = func(p *Path, fr *frame, pos token.Pos, args []Value) Value {
		return p.strEq(args[0].(*Str), args[1].(*Str))
	}
	// verifIte(c, a, b uint64) uint64
	m["@verifIte"] = func(p *Path, fr *frame, pos token.Pos, args []Value) Value {
		return p.st.Ite(args[0].(*Term), args[1].(*Term), args[2].(*Term))
	}
	// verifAnd/Or/Implies: non-forking boolean connectives for harness assertions
	m["@verifAnd"] = func(p *Path, fr *frame, pos token.Pos, args []Value) Value {
		return p.st.And(args[0].(*Term), args[1].(*Term))
	}
	m["@verifOr"] = func(p *Path, fr *frame, pos token.Pos, args []Value) Value {
		return p.st.Or(args[0].(*Term), args[1].(*Term))
	}
	m["@verifImplies"] = func(p *Path, fr *frame, pos token.Pos, args []Value) Value {
		return p.st.Implies(args[0].(*Term), args[1].(*Term))
	}
	// verifInitPkg("import/path"): force the initialiser of a package (initialisation is lazy otherwise)
	m["@verifInitPkg"] = func(p *Path, fr *frame, pos token.Pos, args []Value) Value {
		path := p.concString(args[0], "package path")
		pk := p.eng.pkgByPath[path]
		if pk == nil {
			p.unsupported("verifInitPkg: package %s not loaded", path)
		}
		p.ensureInit(pk)
		return nil
	}
	// verifLoopBound(n): from here on a loop head may be visited at most n times per frame (0 = engine default)
	m["@verifLoopBound"] = func(p *Path, fr *frame, pos token.Pos, args []Value) Value {
		p.loopBound = p.concInt(args[0], "loop bound")
		return nil
	}
	m["@verifOnQuiescent"] = func(p *Path, fr *frame, pos token.Pos, args []Value) Value {
		s := p.sch()
		s.onQuiet = append(s.onQuiet, args[0])
		return nil
	}
	// verifSettle(): run the other goroutines until none of them is runnable (every order explored)
	m["@verifSettle"] = func(p *Path, fr *frame, pos token.Pos, args []Value) Value {
		if p.sched == nil {
			return nil
		}
		s := p.sched
		for {
			others := s.runnable(s.cur)
			if len(others) == 0 {
				return nil
			}
			p.switchTo(others[p.choose(len(others))])
		}
	}
	// verifYield(): an explicit scheduling point
	m["@verifYield"] = func(p *Path, fr *frame, pos token.Pos, args []Value) Value { p.yieldVoluntary(fr); return nil }
	m["@verifSymbolic"] = func(p *Path, fr *frame, pos token.Pos, args []Value) Value {
		return p.st.True
	}

	// ---- math ----
	id := func(p *Path, fr *frame, pos token.Pos, args []Value) Value { return args[0] }
	m["math.Float32bits"] = id
	m["math.Float32frombits"] = id
	m["math.Float64bits"] = id
	m["math.Float64frombits"] = id
	m["math.IsNaN"] = func(p *Path, fr *frame, pos token.Pos, args []Value) Value {
		return p.st.FpIsNaN(args[0].(*Term))
	}
	m["math.IsInf"] = func(p *Path, fr *frame, pos token.Pos, args []Value) Value {
		f := args[0].(*Term)
		sign := args[1].(*Term)
		st := p.st
		pinf := st.Eq(f, st.BV(64, 0x7ff0000000000000))
		ninf := st.Eq(f, st.BV(64, 0xfff0000000000000))
		pos0 := st.Cmp(OpSle, st.BV(64, 0), sign)
		neg0 := st.Cmp(OpSle, sign, st.BV(64, 0))
		return st.Or(st.And(pos0, pinf), st.And(neg0, ninf))
	}
	m["math.Abs"] = func(p *Path, fr *frame, pos token.Pos, args []Value) Value {
		return p.st.Bin(OpBAnd, args[0].(*Term), p.st.BV(64, 0x7fffffffffffffff))
	}
	m["math.Signbit"] = func(p *Path, fr *frame, pos token.Pos, args []Value) Value {
		return p.st.Eq(p.st.Extract(args[0].(*Term), 63, 63), p.st.BV(1, 1))
	}
	// math/bits: the pure-Go fallbacks are interpreted; the common ones get exact models
	m["math/bits.LeadingZeros64"] = bitsUnary(func(x uint64) uint64 { return uint64(bits.LeadingZeros64(x)) }, 64)
	m["math/bits.LeadingZeros32"] = bitsUnary(func(x uint64) uint64 { return uint64(bits.LeadingZeros32(uint32(x))) }, 32)
	m["math/bits.TrailingZeros64"] = bitsUnary(func(x uint64) uint64 { return uint64(bits.TrailingZeros64(x)) }, 64)
	m["math/bits.TrailingZeros32"] = bitsUnary(func(x uint64) uint64 { return uint64(bits.TrailingZeros32(uint32(x))) }, 32)
	m["math/bits.Len64"] = bitsUnary(func(x uint64) uint64 { return uint64(bits.Len64(x)) }, 64)
	m["math/bits.Len32"] = bitsUnary(func(x uint64) uint64 { return uint64(bits.Len32(uint32(x))) }, 32)
	m["math/bits.Len"] = bitsUnary(func(x uint64) uint64 { return uint64(bits.Len64(x)) }, 64)
	m["math/bits.OnesCount64"] = bitsUnary(func(x uint64) uint64 { return uint64(bits.OnesCount64(x)) }, 64)
	m["math/bits.OnesCount32"] = bitsUnary(func(x uint64) uint64 { return uint64(bits.OnesCount32(uint32(x))) }, 32)

	// ---- sync (sequential models; blocking handled by the scheduler) ----
	nop := func(p *Path, fr *frame, pos token.Pos, args []Value) Value { return nil }
	m["(*sync.Mutex).Lock"] = func(p *Path, fr *frame, pos token.Pos, args []Value) Value { p.mutexLock(fr, args[0], false); return nil }
	m["(*sync.Mutex).Unlock"] = func(p *Path, fr *frame, pos token.Pos, args []Value) Value {
		p.mutexUnlock(fr, pos, args[0], false)
		return nil
	}
	m["(*sync.Mutex).TryLock"] = func(p *Path, fr *frame, pos token.Pos, args []Value) Value {
		return p.st.Bool(p.mutexTryLock(fr, args[0]))
	}
	m["(*sync.RWMutex).Lock"] = m["(*sync.Mutex).Lock"]
	m["(*sync.RWMutex).Unlock"] = m["(*sync.Mutex).Unlock"]
	m["(*sync.RWMutex).RLock"] = func(p *Path, fr *frame, pos token.Pos, args []Value) Value { p.mutexLock(fr, args[0], true); return nil }
	m["(*sync.RWMutex).RUnlock"] = func(p *Path, fr *frame, pos token.Pos, args []Value) Value {
		p.mutexUnlock(fr, pos, args[0], true)
		return nil
	}
	m["(*sync.Once).Do"] = func(p *Path, fr *frame, pos token.Pos, args []Value) Value {
		key := args[0].(*Value)
		if p.onceDone == nil {
			p.onceDone = map[*Value]bool{}
		}
		if !p.onceDone[key] {
			p.onceDone[key] = true
			p.call(fr, pos, args[1], nil)
		}
		return nil
	}
	m["(*sync.WaitGroup).Add"] = func(p *Path, fr *frame, pos token.Pos, args []Value) Value {
		p.wgAdd(fr, pos, args[0], args[1].(*Term))
		return nil
	}
	m["(*sync.WaitGroup).Done"] = func(p *Path, fr *frame, pos token.Pos, args []Value) Value {
		p.wgAdd(fr, pos, args[0], p.st.BV(64, ^uint64(0)))
		return nil
	}
	m["(*sync.WaitGroup).Wait"] = func(p *Path, fr *frame, pos token.Pos, args []Value) Value { p.wgWait(fr, args[0]); return nil }
	m["sync.NewCond"] = func(p *Path, fr *frame, pos token.Pos, args []Value) Value {
		// struct Cond { noCopy; L Locker; notify; checker } — we only need L; allocate the real struct shape
		ct := p.eng.pkgByPath["sync"].Type("Cond").Type()
		v := p.zero(ct)
		stt := ct.Underlying().(*types.Struct)
		for i := 0; i < stt.NumFields(); i++ {
			if stt.Field(i).Name() == "L" {
				v.(Struct)[i] = args[0]
			}
		}
		cell := new(Value)
		*cell = v
		return cell
	}
	m["(*sync.Cond).Wait"] = func(p *Path, fr *frame, pos token.Pos, args []Value) Value { p.condWait(fr, pos, args[0]); return nil }
	m["(*sync.Cond).Signal"] = func(p *Path, fr *frame, pos token.Pos, args []Value) Value { p.condSignal(fr, args[0], false); return nil }
	m["(*sync.Cond).Broadcast"] = func(p *Path, fr *frame, pos token.Pos, args []Value) Value { p.condSignal(fr, args[0], true); return nil }
	m["(*sync.Pool).Get"] = func(p *Path, fr *frame, pos token.Pos, args []Value) Value {
		pool := args[0].(*Value)
		stt := (*pool).(Struct)
		newf := stt[len(stt)-1]
		if isNilFunc(newf) {
			return Iface{}
		}
		return p.call(fr, pos, newf, nil)
	}
	m["(*sync.Pool).Put"] = nop
	// math/rand (v1 and v2) top-level functions: arbitrary values
	for _, pk := range []string{"math/rand", "math/rand/v2"} {
		for name, w := range map[string]int{"Uint32": 32, "Uint64": 64, "Int63": 63, "Int31": 31, "Int": 63, "Int64": 63, "Int32": 31, "Uint": 64} {
			w := w
			m[pk+"."+name] = func(p *Path, fr *frame, pos token.Pos, args []Value) Value {
				p.eng.noteStub(p.harness, "math/rand: arbitrary values")
				ww := 64
				if w <= 32 {
					ww = 32
				}
				v := p.fresh("rand", ww)
				if w == 63 || w == 31 {
					p.assume(p.st.Cmp(OpSle, p.st.BV(ww, 0), v))
				}
				return v
			}
		}
	}
	m["runtime.Gosched"] = func(p *Path, fr *frame, pos token.Pos, args []Value) Value { p.yield(fr); return nil }
	m["runtime.KeepAlive"] = nop
	m["runtime.GOMAXPROCS"] = func(p *Path, fr *frame, pos token.Pos, args []Value) Value { return p.st.BV(64, 16) }
	m["runtime.NumCPU"] = func(p *Path, fr *frame, pos token.Pos, args []Value) Value { return p.st.BV(64, 16) }
	m["runtime.SetFinalizer"] = nop

	// ---- sync/atomic (sequentially consistent, one goroutine runs at a time) ----
	for _, w := range []string{"Int32", "Int64", "Uint32", "Uint64", "Uintptr"} {
		w := w
		m["sync/atomic.Load"+w] = func(p *Path, fr *frame, pos token.Pos, args []Value) Value {
			return p.load(fr, pos, args[0])
		}
		m["sync/atomic.Store"+w] = func(p *Path, fr *frame, pos token.Pos, args []Value) Value {
			p.store(fr, pos, args[0], args[1])
			return nil
		}
		m["sync/atomic.Add"+w] = func(p *Path, fr *frame, pos token.Pos, args []Value) Value {
			v := p.st.Add(p.load(fr, pos, args[0]).(*Term), args[1].(*Term))
			p.store(fr, pos, args[0], v)
			return v
		}
		m["sync/atomic.Swap"+w] = func(p *Path, fr *frame, pos token.Pos, args []Value) Value {
			old := p.load(fr, pos, args[0])
			p.store(fr, pos, args[0], args[1])
			return old
		}
		m["sync/atomic.CompareAndSwap"+w] = func(p *Path, fr *frame, pos token.Pos, args []Value) Value {
			old := p.load(fr, pos, args[0]).(*Term)
			if p.decide(p.st.Eq(old, args[1].(*Term))) {
				p.store(fr, pos, args[0], args[2])
				return p.st.True
			}
			return p.st.False
		}
	}

	// ---- unsafe / strings plumbing ----
	m["unsafe.String"] = func(p *Path, fr *frame, pos token.Pos, args []Value) Value {
		p.unsupported("unsafe.String")
		return nil
	}
	m["strings.(*Builder).copyCheck"] = nop
	m["(*strings.Builder).copyCheck"] = nop
	m["(*strings.Builder).String"] = func(p *Path, fr *frame, pos token.Pos, args []Value) Value {
		b := args[0].(*Value)
		stt := (*b).(Struct)
		buf := stt[len(stt)-1]
		switch buf := buf.(type) {
		case []Value:
			return p.bytesToStr(fr, buf, nil)
		case *SymSlice:
			return &Str{Arr: buf.Arr, Off: buf.Off, Len: buf.Len, Max: buf.Max}
		}
		return p.emptyStr
	}

	// ---- errors / fmt ----
	m["fmt.Errorf"] = intrErrorf
	m["fmt.Sprintf"] = intrSprintf
	m["fmt.Sprint"] = intrSprint
	m["fmt.Sprintln"] = intrSprint
	m["fmt.Printf"] = nop
	m["fmt.Println"] = nop
	m["fmt.Print"] = nop
	m["fmt.Fprintf"] = intrFprintf
	m["fmt.Fprintln"] = intrFprintf
	m["fmt.Fprint"] = intrFprintf
	m["log.Printf"] = nop
	m["log.Println"] = nop
	m["log.Print"] = nop
	m["log.Panicf"] = func(p *Path, fr *frame, pos token.Pos, args []Value) Value {
		s := intrSprintf(p, fr, pos, args)
		panic(targetPanic{Iface{T: types.Typ[types.String], V: s}, p.pos(pos)})
	}
	m["log.Panic"] = func(p *Path, fr *frame, pos token.Pos, args []Value) Value {
		panic(targetPanic{Iface{T: types.Typ[types.String], V: mkStr("log.Panic")}, p.pos(pos)})
	}
	m["log.Fatalf"] = m["log.Panicf"]
	m["errors.Is"] = intrErrorsIs
	m["errors.As"] = intrErrorsAs

	// ---- bytes / strings / bytealg on engine sequences ----
	m["bytes.Equal"] = func(p *Path, fr *frame, pos token.Pos, args []Value) Value { return p.seqEq(args[0], args[1]) }
	m["internal/bytealg.Equal"] = m["bytes.Equal"]
	m["internal/bytealg.IndexByte"] = func(p *Path, fr *frame, pos token.Pos, args []Value) Value {
		return p.indexByte(fr, args[0], args[1].(*Term))
	}
	m["internal/bytealg.IndexByteString"] = m["internal/bytealg.IndexByte"]
	m["bytes.IndexByte"] = m["internal/bytealg.IndexByte"]
	m["strings.IndexByte"] = m["internal/bytealg.IndexByte"]
	m["internal/stringslite.IndexByte"] = m["internal/bytealg.IndexByte"]
	// substring search: first position where the needle matches (fork per candidate position)
	indexSeq := func(p *Path, fr *frame, pos token.Pos, args []Value) Value {
		hay, nd := p.elemsOf(args[0]), p.elemsOf(args[1])
		n := len(nd)
		if n == 0 {
			return p.st.BV(64, 0)
		}
		for i := 0; i+n <= len(hay); i++ {
			m := p.st.True
			for k := 0; k < n; k++ {
				m = p.st.And(m, p.st.Eq(hay[i+k].(*Term), nd[k].(*Term)))
			}
			if p.decide(m) {
				return p.st.BV(64, uint64(i))
			}
		}
		return p.st.BV(64, ^uint64(0))
	}
	m["internal/bytealg.Index"] = indexSeq
	m["internal/bytealg.IndexString"] = indexSeq
	m["internal/bytealg.Compare"] = func(p *Path, fr *frame, pos token.Pos, args []Value) Value {
		return p.seqCompare(args[0], args[1])
	}
	m["bytes.Compare"] = m["internal/bytealg.Compare"]
	m["internal/bytealg.CompareString"] = m["internal/bytealg.Compare"]
	m["strings.Compare"] = m["internal/bytealg.Compare"]
	m["internal/bytealg.Count"] = func(p *Path, fr *frame, pos token.Pos, args []Value) Value {
		return p.countByte(args[0], args[1].(*Term))
	}
	m["internal/bytealg.CountString"] = m["internal/bytealg.Count"]
	m["internal/bytealg.MakeNoZero"] = func(p *Path, fr *frame, pos token.Pos, args []Value) Value {
		n := p.concretize(args[0].(*Term), p.maxAlloc(), "MakeNoZero")
		out := make([]Value, n)
		for i := range out {
			out[i] = p.st.BV(8, 0)
		}
		return out
	}
	// ---- sort: insertion sort driven by the real comparison (assumption: the standard sort is a correct sort) ----
	insertion := func(p *Path, n int, less func(i, j int) bool, swap func(i, j int)) {
		p.eng.noteStub(p.harness, "sort.*: modelled as an insertion sort calling the real less function (any correct sort gives the same result for distinct keys)")
		for i := 1; i < n; i++ {
			for j := i; j > 0 && less(j, j-1); j-- {
				swap(j, j-1)
			}
		}
	}
	sortSlice := func(p *Path, fr *frame, pos token.Pos, args []Value) Value {
		itf := args[0].(Iface)
		sl, ok := itf.V.([]Value)
		if !ok {
			p.unsupported("sort.Slice on %T", itf.V)
		}
		insertion(p, len(sl), func(i, j int) bool {
			r := p.call(fr, pos, args[1], []Value{p.st.BV(64, uint64(i)), p.st.BV(64, uint64(j))})
			return p.decide(r.(*Term))
		}, func(i, j int) { sl[i], sl[j] = sl[j], sl[i] })
		return nil
	}
	m["sort.Slice"] = sortSlice
	m["sort.SliceStable"] = sortSlice
	m["sort.Strings"] = func(p *Path, fr *frame, pos token.Pos, args []Value) Value {
		sl, _ := args[0].([]Value)
		insertion(p, len(sl), func(i, j int) bool { return p.decide(p.strLess(sl[i].(*Str), sl[j].(*Str))) }, func(i, j int) { sl[i], sl[j] = sl[j], sl[i] })
		return nil
	}
	m["sort.Ints"] = func(p *Path, fr *frame, pos token.Pos, args []Value) Value {
		sl, _ := args[0].([]Value)
		insertion(p, len(sl), func(i, j int) bool { return p.decide(p.st.Cmp(OpSlt, sl[i].(*Term), sl[j].(*Term))) }, func(i, j int) { sl[i], sl[j] = sl[j], sl[i] })
		return nil
	}
	sortIface := func(p *Path, fr *frame, pos token.Pos, args []Value) Value {
		itf := args[0].(Iface)
		meth := func(name string) *ssa.Function {
			ms := p.eng.prog.MethodSets.MethodSet(itf.T)
			for i := 0; i < ms.Len(); i++ {
				if ms.At(i).Obj().Name() == name {
					return p.eng.prog.MethodValue(ms.At(i))
				}
			}
			p.unsupported("sort.Sort: no method %s on %v", name, itf.T)
			return nil
		}
		n := p.concretize(p.call(fr, pos, meth("Len"), []Value{itf.V}).(*Term), 64, "sort.Sort Len")
		lessF, swapF := meth("Less"), meth("Swap")
		insertion(p, n, func(i, j int) bool {
			return p.decide(p.call(fr, pos, lessF, []Value{itf.V, p.st.BV(64, uint64(i)), p.st.BV(64, uint64(j))}).(*Term))
		}, func(i, j int) {
			p.call(fr, pos, swapF, []Value{itf.V, p.st.BV(64, uint64(i)), p.st.BV(64, uint64(j))})
		})
		return nil
	}
	m["sort.Sort"] = sortIface
	m["sort.Stable"] = sortIface
	// ---- hash/crc32: native on concrete data, uninterpreted function of (table, initial crc, bytes) on symbolic data ----
	crcUpdate := func(p *Path, tabID string, poly uint32, crc *Term, data Value) Value {
		es := p.elemsOf(data)
		allc := crc.Op == OpConst
		buf := make([]byte, len(es))
		for i, e := range es {
			t := e.(*Term)
			if t.Op != OpConst {
				allc = false
				break
			}
			buf[i] = byte(t.C)
		}
		if allc {
			return p.st.BV(32, uint64(crc32.Update(uint32(crc.C), crc32.MakeTable(poly), buf)))
		}
		if len(es) == 0 {
			return crc
		}
		p.eng.noteStub(p.harness, "hash/crc32 on symbolic data: uninterpreted function of (table, initial crc, byte sequence) + CRC contract (same data, different initial value => different result; same initial value, exactly one byte changed => different result)")
		args := []*Term{crc}
		for _, e := range es {
			args = append(args, e.(*Term))
		}
		name := fmt.Sprintf("crc32_%s_%d", tabID, len(es))
		res := p.st.UF(name, 32, args...)
		// CRC contract against earlier applications of the same table and length (true of every CRC-32: the state update is
		// a bijection for fixed data, and any burst error of <= 32 bits is detected)
		st := p.st
		for _, old := range p.crcApps {
			if old.name != name || same(old.res, res) {
				continue
			}
			allEq := st.True
			ndiff := st.BV(8, 0)
			for i := range es {
				eq := st.Eq(old.args[1+i], args[1+i])
				allEq = st.And(allEq, eq)
				ndiff = st.Add(ndiff, st.Ite(eq, st.BV(8, 0), st.BV(8, 1)))
			}
			initEq := st.Eq(old.args[0], args[0])
			p.assume(st.Implies(st.And(st.Not(initEq), allEq), st.Not(st.Eq(old.res, res))))
			if len(es) < 200 {
				p.assume(st.Implies(st.And(initEq, st.Eq(ndiff, st.BV(8, 1))), st.Not(st.Eq(old.res, res))))
			}
		}
		p.crcApps = append(p.crcApps, crcApp{name, args, res})
		return res
	}
	m["hash/crc32.ChecksumIEEE"] = func(p *Path, fr *frame, pos token.Pos, args []Value) Value {
		return crcUpdate(p, "ieee", crc32.IEEE, p.st.BV(32, 0), args[0])
	}
	m["hash/crc32.Update"] = func(p *Path, fr *frame, pos token.Pos, args []Value) Value {
		tab, ok := args[1].(*Value)
		if !ok || tab == nil {
			p.unsupported("crc32.Update with nil table")
		}
		// identify the table by its second entry (T[1] == reflected polynomial's 0x80-byte image is unique per polynomial)
		arr := (*tab).(Array)
		t1 := arr[1].(*Term)
		if t1.Op != OpConst {
			// table not yet populated (lazily built IEEE table)
			return crcUpdate(p, "ieee", crc32.IEEE, args[0].(*Term), args[2])
		}
		for _, poly := range []uint32{crc32.IEEE, crc32.Castagnoli, crc32.Koopman} {
			if crc32.MakeTable(poly)[1] == uint32(t1.C) {
				return crcUpdate(p, fmt.Sprintf("%08x", poly), poly, args[0].(*Term), args[2])
			}
		}
		if t1.C == 0 {
			return crcUpdate(p, "ieee", crc32.IEEE, args[0].(*Term), args[2])
		}
		p.unsupported("crc32.Update with an unknown table")
		return nil
	}
	m["hash/crc32.MakeTable"] = func(p *Path, fr *frame, pos token.Pos, args []Value) Value {
		poly := args[0].(*Term)
		if poly.Op != OpConst {
			p.unsupported("crc32.MakeTable(symbolic)")
		}
		tab := crc32.MakeTable(uint32(poly.C))
		a := make(Array, 256)
		for i := range a {
			a[i] = p.st.BV(32, uint64(tab[i]))
		}
		cell := new(Value)
		*cell = a
		return cell
	}
	// ---- quicktemplate / bytebufferpool plumbing ----
	m["github.com/valyala/quicktemplate.unsafeStrToBytes"] = func(p *Path, fr *frame, pos token.Pos, args []Value) Value {
		bs := p.strBytes(args[0].(*Str))
		out := make([]Value, len(bs))
		for i, b := range bs {
			out[i] = b
		}
		return out
	}
	m["github.com/valyala/quicktemplate.unsafeBytesToStr"] = func(p *Path, fr *frame, pos token.Pos, args []Value) Value {
		switch b := args[0].(type) {
		case []Value:
			return p.bytesToStr(fr, b, nil)
		case *SymSlice:
			return &Str{Arr: b.Arr, Off: b.Off, Len: b.Len, Max: b.Max}
		}
		p.unsupported("unsafeBytesToStr of %T", args[0])
		return nil
	}
	m["(*github.com/valyala/bytebufferpool.Pool).Get"] = func(p *Path, fr *frame, pos token.Pos, args []Value) Value {
		p.eng.noteStub(p.harness, "bytebufferpool: pool returns a fresh buffer")
		bt := p.eng.pkgByPath["github.com/valyala/bytebufferpool"].Type("ByteBuffer").Type()
		cell := new(Value)
		*cell = p.zero(bt)
		return cell
	}
	m["(*github.com/valyala/bytebufferpool.Pool).Put"] = nop
	m["internal/abi.NoEscape"] = id
	m["internal/abi.Escape"] = id
	m["internal/race.Enabled"] = nop
	m["internal/cpu.Initialize"] = nop
	m["time.Now"] = func(p *Path, fr *frame, pos token.Pos, args []Value) Value {
		// arbitrary non-decreasing instant: wall=0, ext = symbolic monotone counter, loc=nil
		p.eng.noteStub(p.harness, "time.Now: arbitrary non-decreasing instants")
		tt := p.eng.pkgByPath["time"].Type("Time").Type()
		v := p.zero(tt).(Struct)
		nxt := p.fresh("time", 64)
		if p.lastTime != nil {
			p.assume(p.st.Cmp(OpSle, p.lastTime, nxt))
		} else {
			p.assume(p.st.Cmp(OpSle, p.st.BV(64, 0), nxt))
		}
		p.assume(p.st.Cmp(OpSlt, nxt, p.st.BV(64, 1<<61)))
		p.lastTime = nxt
		v[1] = nxt
		return v
	}
	for _, f := range extraIntrinsics {
		f(m)
	}
	return m
}

func bitsUnary(f func(uint64) uint64, w int) intrinsic {
	return func(p *Path, fr *frame, pos token.Pos, args []Value) Value {
		x := args[0].(*Term)
		if x.Op == OpConst {
			return p.st.BV(64, f(x.C))
		}
		return fallThrough{}
	}
}

// seqBytes returns a uniform view over []byte / string values: length term, element accessor, and a static bound on the length.
type seqView struct {
	n     *Term
	at    func(i *Term) *Term
	bound int
	conc  bool // concrete length
}

func (p *Path) seqView(v Value) seqView {
	st := p.st
	switch v := v.(type) {
	case []Value:
		return seqView{n: st.BV(64, uint64(len(v))), bound: len(v), conc: true, at: func(i *Term) *Term {
			if i.Op == OpConst {
				return v[i.C].(*Term)
			}
			if len(v) == 0 {
				return st.BV(8, 0)
			}
			r := v[len(v)-1].(*Term)
			for k := len(v) - 2; k >= 0; k-- {
				r = st.Ite(st.Eq(i, st.BV(64, uint64(k))), v[k].(*Term), r)
			}
			return r
		}}
	case *SymSlice:
		return seqView{n: v.Len, bound: v.Max, at: func(i *Term) *Term { return st.Select(v.Arr, st.Add(v.Off, i)) }}
	case *Str:
		if v.IsArr() {
			return seqView{n: v.Len, bound: v.Max, at: func(i *Term) *Term { return st.Select(v.Arr, st.Add(v.Off, i)) }}
		}
		n := len(v.S)
		if v.Sym != nil {
			n = len(v.Sym)
		}
		return seqView{n: st.BV(64, uint64(n)), bound: n, conc: true, at: func(i *Term) *Term { return p.strAt(v, i) }}
	}
	p.unsupported("byte sequence view of %T", v)
	return seqView{}
}

// seqEq: equality of two byte sequences as one term.
func (p *Path) seqEq(a, b Value) *Term {
	st := p.st
	x, y := p.seqView(a), p.seqView(b)
	if x.conc && y.conc && x.bound != y.bound {
		return st.False
	}
	r := st.Eq(x.n, y.n)
	bound := min(x.bound, y.bound)
	for i := 0; i < bound; i++ {
		ii := st.BV(64, uint64(i))
		var in *Term
		if x.conc || y.conc {
			// with equal lengths, i < bound <= the concrete length is automatically in range
			in = st.True
			if x.conc && y.conc {
				in = st.True
			} else if x.conc {
				in = st.True
			}
		} else {
			in = st.Cmp(OpUlt, ii, x.n)
		}
		r = st.And(r, st.Implies(in, st.Eq(x.at(ii), y.at(ii))))
	}
	return r
}

// seqCompare: three-way compare (-1,0,1) of byte sequences; lengths are concretised.
func (p *Path) seqCompare(a, b Value) *Term {
	st := p.st
	xa, ya := p.elemsOf(a), p.elemsOf(b)
	n := min(len(xa), len(ya))
	var r *Term
	switch {
	case len(xa) < len(ya):
		r = st.BV(64, ^uint64(0))
	case len(xa) > len(ya):
		r = st.BV(64, 1)
	default:
		r = st.BV(64, 0)
	}
	for i := n - 1; i >= 0; i-- {
		x, y := xa[i].(*Term), ya[i].(*Term)
		r = st.Ite(st.Cmp(OpUlt, x, y), st.BV(64, ^uint64(0)), st.Ite(st.Cmp(OpUlt, y, x), st.BV(64, 1), r))
	}
	return r
}

func (p *Path) indexByte(fr *frame, s Value, c *Term) *Term {
	st := p.st
	v := p.seqView(s)
	// first index i with s[i]==c, else -1: fork per position (bounded scan)
	for i := 0; i < v.bound; i++ {
		ii := st.BV(64, uint64(i))
		if !v.conc {
			if !p.decide(st.Cmp(OpUlt, ii, v.n)) {
				return st.BV(64, ^uint64(0))
			}
		}
		if p.decide(st.Eq(v.at(ii), c)) {
			return ii
		}
	}
	return st.BV(64, ^uint64(0))
}

func (p *Path) countByte(s Value, c *Term) *Term {
	st := p.st
	es := p.elemsOf(s)
	r := st.BV(64, 0)
	for _, e := range es {
		r = st.Add(r, st.Ite(st.Eq(e.(*Term), c), st.BV(64, 1), st.BV(64, 0)))
	}
	return r
}

// ---- fmt / errors ----

// fmtArgs converts the variadic []any argument; returns native Go values when all are concrete.
func (p *Path) fmtArgs(fr *frame, v Value) (native []interface{}, ifaces []Iface, allConc bool) {
	allConc = true
	var elems []Value
	switch v := v.(type) {
	case []Value:
		elems = v
	case nil:
	default:
		p.unsupported("fmt args of %T", v)
	}
	for _, e := range elems {
		itf := e.(Iface)
		ifaces = append(ifaces, itf)
		nv, ok := p.toNative(fr, itf)
		if !ok {
			allConc = false
		}
		native = append(native, nv)
	}
	return
}

// toNative converts an interface-boxed engine value to a Go value usable by fmt (best effort).
func (p *Path) toNative(fr *frame, itf Iface) (interface{}, bool) {
	if itf.T == nil {
		return nil, true
	}
	switch v := itf.V.(type) {
	case *Term:
		if v.Op != OpConst {
			return "<sym>", false
		}
		w, signed, isFloat, ok := basicInfo(itf.T)
		if !ok {
			return "<?>", false
		}
		switch {
		case w == 0:
			return v.C != 0, true
		case isFloat && w == 32:
			return float32(fbits(v, 32)), true
		case isFloat:
			return fbits(v, 64), true
		case signed:
			switch w {
			case 8:
				return int8(v.C), true
			case 16:
				return int16(v.C), true
			case 32:
				return int32(v.C), true
			}
			return int64(v.C), true
		default:
			switch w {
			case 8:
				return uint8(v.C), true
			case 16:
				return uint16(v.C), true
			case 32:
				return uint32(v.C), true
			}
			return v.C, true
		}
	case *Str:
		if v.IsConc() {
			return v.S, true
		}
		return "<symstr>", false
	}
	// error or Stringer: call the method in the engine
	for _, mname := range []string{"Error", "String"} {
		ms := p.eng.prog.MethodSets.MethodSet(itf.T)
		for i := 0; i < ms.Len(); i++ {
			sel := ms.At(i)
			if sel.Obj().Name() == mname {
				sig := sel.Type().(*types.Signature)
				if sig.Params().Len() == 0 && sig.Results().Len() == 1 {
					if f := p.eng.prog.MethodValue(sel); f != nil {
						r := p.call(fr, token.NoPos, f, []Value{itf.V})
						if s, ok := r.(*Str); ok {
							if s.IsConc() {
								return s.S, true
							}
							return "<symstr>", false
						}
					}
				}
			}
		}
	}
	if sl, ok := itf.V.([]Value); ok {
		// []byte and friends: best effort
		bs := make([]byte, 0, len(sl))
		for _, e := range sl {
			t, ok := e.(*Term)
			if !ok || t.Op != OpConst || t.W != 8 {
				return fmt.Sprintf("<%s>", itf.T), false
			}
			bs = append(bs, byte(t.C))
		}
		return bs, true
	}
	return fmt.Sprintf("<%s>", itf.T), false
}

func (p *Path) sprintf(fr *frame, pos token.Pos, format Value, argv Value) *Str {
	native, _, allConc := p.fmtArgs(fr, argv)
	f, ok := concStr(format.(*Str))
	if !ok {
		return mkStr("<fmt:symbolic format>")
	}
	if allConc {
		return mkStr(fmt.Sprintf(strings.ReplaceAll(f, "%w", "%v"), native...))
	}
	if r := p.sprintfExact(fr, f, argv); r != nil {
		return r
	}
	p.eng.noteStub(p.harness, "fmt.Sprintf/Errorf with symbolic operands: text is opaque (only error-ness and wrapping are modelled)")
	return mkStr("<fmt@" + p.pos(pos) + ":" + f + ">")
}

func intrSprintf(p *Path, fr *frame, pos token.Pos, args []Value) Value {
	return p.sprintf(fr, pos, args[0], args[1])
}

func intrSprint(p *Path, fr *frame, pos token.Pos, args []Value) Value {
	native, _, allConc := p.fmtArgs(fr, args[0])
	if allConc {
		return mkStr(fmt.Sprint(native...))
	}
	return mkStr("<fmt.Sprint@" + p.pos(pos) + ">")
}

func intrFprintf(p *Path, fr *frame, pos token.Pos, args []Value) Value {
	// output formatting is not the subject: write nothing, report success
	p.eng.noteStub(p.harness, "fmt.Fprint*: output dropped")
	return Tuple{p.st.BV(64, 0), Iface{}}
}

type errTypes struct {
	errorString types.Type // *errors.errorString
	wrapError   types.Type // *fmt.wrapError
}

func (p *Path) newErrorString(msg *Str) Iface {
	pk := p.eng.pkgByPath["errors"]
	if pk == nil {
		p.unsupported("errors package not in program")
	}
	t := pk.Type("errorString").Type()
	cell := new(Value)
	*cell = Struct{msg}
	return Iface{T: types.NewPointer(t), V: cell}
}

func intrErrorf(p *Path, fr *frame, pos token.Pos, args []Value) Value {
	msg := p.sprintf(fr, pos, args[0], args[1])
	f, _ := concStr(args[0].(*Str))
	_, ifaces, _ := p.fmtArgs(fr, args[1])
	// find %w operands
	var wrapped []Iface
	argi := 0
	for i := 0; i < len(f); i++ {
		if f[i] != '%' {
			continue
		}
		i++
		for i < len(f) && strings.IndexByte("+-# 0123456789.*[]", f[i]) >= 0 {
			i++
		}
		if i >= len(f) {
			break
		}
		if f[i] == '%' {
			continue
		}
		if f[i] == 'w' && argi < len(ifaces) {
			wrapped = append(wrapped, ifaces[argi])
		}
		argi++
	}
	if len(wrapped) == 1 && wrapped[0].T != nil {
		if pk := p.eng.pkgByPath["fmt"]; pk != nil {
			if wt := pk.Type("wrapError"); wt != nil {
				cell := new(Value)
				*cell = Struct{msg, wrapped[0]}
				return Iface{T: types.NewPointer(wt.Type()), V: cell}
			}
		}
	}
	if len(wrapped) > 1 {
		p.unsupported("fmt.Errorf with several %%w")
	}
	return p.newErrorString(msg)
}

// unwrapErr calls err.Unwrap() if the dynamic type has it.
func (p *Path) unwrapErr(fr *frame, err Iface) (Iface, bool) {
	ms := p.eng.prog.MethodSets.MethodSet(err.T)
	for i := 0; i < ms.Len(); i++ {
		sel := ms.At(i)
		if sel.Obj().Name() == "Unwrap" {
			sig := sel.Type().(*types.Signature)
			if sig.Params().Len() == 0 && sig.Results().Len() == 1 {
				if _, isSlice := sig.Results().At(0).Type().Underlying().(*types.Slice); isSlice {
					p.unsupported("errors.Is over Unwrap() []error")
				}
				f := p.eng.prog.MethodValue(sel)
				r := p.call(fr, token.NoPos, f, []Value{err.V})
				return r.(Iface), true
			}
		}
	}
	return Iface{}, false
}

func intrErrorsIs(p *Path, fr *frame, pos token.Pos, args []Value) Value {
	err, target := args[0].(Iface), args[1].(Iface)
	if err.T == nil || target.T == nil {
		return p.st.Bool(err.T == nil && target.T == nil)
	}
	for depth := 0; depth < 32; depth++ {
		if types.Comparable(target.T) && types.Identical(err.T, target.T) {
			if p.decide(p.equals(err.T, err.V, target.V)) {
				return p.st.True
			}
		}
		// Is method
		ms := p.eng.prog.MethodSets.MethodSet(err.T)
		for i := 0; i < ms.Len(); i++ {
			sel := ms.At(i)
			if sel.Obj().Name() == "Is" {
				sig := sel.Type().(*types.Signature)
				if sig.Params().Len() == 1 && sig.Results().Len() == 1 {
					f := p.eng.prog.MethodValue(sel)
					r := p.call(fr, pos, f, []Value{err.V, target})
					if p.decide(r.(*Term)) {
						return p.st.True
					}
				}
			}
		}
		next, ok := p.unwrapErr(fr, err)
		if !ok || next.T == nil {
			return p.st.False
		}
		err = next
	}
	p.unsupported("errors.Is: chain too long")
	return nil
}

func intrErrorsAs(p *Path, fr *frame, pos token.Pos, args []Value) Value {
	err, target := args[0].(Iface), args[1].(Iface)
	if target.T == nil {
		panic(targetPanic{Iface{T: types.Typ[types.String], V: mkStr("errors: target cannot be nil")}, p.pos(pos)})
	}
	pt, ok := target.T.Underlying().(*types.Pointer)
	if !ok {
		panic(targetPanic{Iface{T: types.Typ[types.String], V: mkStr("errors: target must be a non-nil pointer")}, p.pos(pos)})
	}
	want := pt.Elem()
	cell := target.V.(*Value)
	for depth := 0; depth < 32 && err.T != nil; depth++ {
		if wi, isIface := want.Underlying().(*types.Interface); isIface {
			if types.Implements(err.T, wi) {
				*cell = err
				return p.st.True
			}
		} else if types.Identical(err.T, want) {
			*cell = copyVal(err.V)
			return p.st.True
		}
		next, ok := p.unwrapErr(fr, err)
		if !ok {
			break
		}
		err = next
	}
	return p.st.False
}

var _ = ssa.NaiveForm


// sprintfExact models the verbs whose text matters to the TL printers exactly: %s (strings), %d (decimal contract),
// %08x on 32-bit and %016x on 64-bit values (hex digits computed from the nibbles). Anything else: nil (opaque fallback).
func (p *Path) sprintfExact(fr *frame, f string, argv Value) *Str {
	elems, _ := argv.([]Value)
	var out []*Term
	ai := 0
	lit := func(s string) {
		for i := 0; i < len(s); i++ {
			out = append(out, p.st.BV(8, uint64(s[i])))
		}
	}
	for i := 0; i < len(f); i++ {
		if f[i] != '%' {
			out = append(out, p.st.BV(8, uint64(f[i])))
			continue
		}
		j := i + 1
		for j < len(f) && strings.IndexByte("0123456789", f[j]) >= 0 {
			j++
		}
		if j >= len(f) {
			return nil
		}
		spec, verb := f[i+1:j], f[j]
		i = j
		if verb == '%' {
			out = append(out, p.st.BV(8, '%'))
			continue
		}
		if ai >= len(elems) {
			return nil
		}
		itf := elems[ai].(Iface)
		ai++
		switch v := itf.V.(type) {
		case *Str:
			if (verb != 's' && verb != 'v') || spec != "" {
				return nil
			}
			out = append(out, p.strBytes(v)...)
		case *Term:
			w, signed, isFloat, ok := basicInfo(itf.T)
			if !ok || isFloat || w == 0 {
				return nil
			}
			if v.Op == OpConst {
				nv, _ := p.toNative(fr, itf)
				lit(fmt.Sprintf("%"+spec+string(verb), nv))
				continue
			}
			switch {
			case (verb == 'd' || verb == 'v') && spec == "":
				t := v
				if w < 64 {
					if signed {
						t = p.st.SExt(v, 64)
					} else {
						t = p.st.ZExt(v, 64)
					}
				}
				for _, d := range p.decimalContract(t, signed) {
					out = append(out, d.(*Term))
				}
			case verb == 'x' && ((spec == "08" && w == 32) || (spec == "016" && w == 64)):
				n := w / 4
				for k := n - 1; k >= 0; k-- {
					nib := p.st.Extract(p.st.Bin(OpLShr, v, p.st.BV(w, uint64(4*k))), 3, 0)
					nib8 := p.st.ZExt(nib, 8)
					out = append(out, p.st.Ite(p.st.Cmp(OpUlt, nib8, p.st.BV(8, 10)), p.st.Add(nib8, p.st.BV(8, '0')), p.st.Add(nib8, p.st.BV(8, 'a'-10))))
				}
			default:
				return nil
			}
		default:
			return nil
		}
	}
	return p.strFromTerms(out)
}
