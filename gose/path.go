package gose

import (
	"fmt"
	"go/token"
	"go/types"
	"sort"
	"strings"
	"sync"
	"time"

	"golang.org/x/tools/go/ssa"
)

// Decision is one entry of a path's decision vector.
type Decision struct {
	B      bool   // branch taken
	Forced bool   // the other side was infeasible (no literal needs asserting on replay)
	K      uint64 // auxiliary value (for model-guided concretisation)
	HasK   bool
}

type Config struct {
	Workers      int
	SolverKind   string
	FeasMs       int // timeout for feasibility queries
	ObligMs      int // timeout for obligations
	MaxSteps     int // instruction budget per path
	MaxLoop      int // visits of one block per frame
	MaxPaths     int
	MaxDepth     int // call depth
	Wall         time.Duration
	Params       map[string]int // harness parameters (verifParam)
	StubFuncs    []string       // functions replaced by an empty body returning zero values
	Trace        bool
	SpareCap     bool // append growth policy: spare capacity
	StopOnViol   bool
	ModelPerPath bool // extract a model for each completed path (native validation)
	ModelMax     int  // at most this many per harness (0 = all)
	NoPureMerge  bool // disable function-level if-conversion
	EagerInit    bool // run the initialisers of all imports eagerly (Go order) instead of lazily
	DumpDir      string
}

type Input struct {
	Kind string // u8 u16 u32 u64 bool bytes string
	Name string
	T    *Term // scalar var, or length var for bytes/string
	Arr  *Term
	Max  int
	Bs   []*Term // fixed-length content as separate byte variables (verifStringN / verifBytesN): pure bit-vector queries
}

type InputVal struct {
	Kind  string `json:"kind"`
	Name  string `json:"name"`
	U     uint64 `json:"u"`
	Bytes []byte `json:"bytes,omitempty"`
	Truncated bool `json:"truncated,omitempty"`
}

const modelByteCap = 4096

type Violation struct {
	Harness string     `json:"harness"`
	Kind    string     `json:"kind"` // assert | panic
	ID      string     `json:"id"`
	Msg     string     `json:"msg"`
	Site    string     `json:"site"`
	Inputs  []InputVal `json:"inputs"`
	Events  []string   `json:"events"`
}

type PathResult struct {
	Outcome    string // return | panic | unwind | unsupported | infeasible | unknown | assumefalse
	Msg        string
	Events     []string
	Violations []Violation
	Unknowns   []string
	Model      []InputVal // for ModelPerPath
	Observed   []Observed
	Steps      int
	Decisions  int
	Forks      int
	IfConv     int
	Queries    int
	SolverTime time.Duration
}

type Observed struct {
	ID  string `json:"id"`
	Val string `json:"val"` // hex for bytes, decimal for ints
}

type pathEnd struct {
	kind string
	msg  string
}

type targetPanic struct {
	v    Value
	site string
}

// Path is the state of one symbolic execution from the harness entry.
type Path struct {
	eng      *Engine
	st       *Store
	sol      *Solver
	prefix   []Decision
	trace    []Decision
	pcN      int
	inputs   []Input
	globals  map[*ssa.Global]*Value
	initDone map[*ssa.Package]bool
	steps    int
	depth    int
	res      *PathResult
	emptyStr *Str
	nvar     int
	funcs    map[*ssa.Function]int // instruction counts of executed functions
	harness  string
	pending  [][]Decision // alternative prefixes discovered on this path
	allocs   []allocRec
	observes map[string]Value
	sched    *sched
	errTypes *errTypes
	deadline time.Time
	stubs    map[string]bool
	pcTerms  []*Term
	inInit     map[*ssa.Package]bool
	allocLimit *Term
	obsList    []obsRec
	onceDone   map[*Value]bool
	lastTime   *Term
	isInitPath bool
	top        *frame
	initDepth  int
	crcApps    []crcApp
	loopBound  int // harness-set loop bound (verifLoopBound), 0 = the engine default
	budgetInit bool
	budget     int
	spec       bool
}

type crcApp struct {
	name string
	args []*Term
	res  *Term
}

type obsRec struct {
	id string
	v  Value
}

type fallThrough struct{}

type allocRec struct {
	site string
	n    *Term
}

func (p *Path) fresh(prefix string, w int) *Term {
	p.nvar++
	return p.st.Var(fmt.Sprintf("%s!%d", prefix, p.nvar), w)
}

func (p *Path) abort(kind, format string, a ...interface{}) {
	panic(pathEnd{kind, fmt.Sprintf(format, a...)})
}

func (p *Path) unsupported(format string, a ...interface{}) {
	panic(pathEnd{"unsupported", fmt.Sprintf(format, a...) + p.stackString()})
}

// stackString: the innermost target-program frames (diagnostics only).
func (p *Path) stackString() string {
	var names []string
	for fr := p.top; fr != nil && len(names) < 8; fr = fr.caller {
		names = append(names, fr.fn.String())
	}
	if len(names) == 0 {
		return ""
	}
	return " [in " + strings.Join(names, " <- ") + "]"
}

func (p *Path) addPC(t *Term) {
	if t.IsTrue() {
		return
	}
	p.pcN++
	p.pcTerms = append(p.pcTerms, t)
	p.sol.Assert(p.st, t)
}

// decide resolves a boolean term to a concrete branch, forking when both sides are feasible.
func (p *Path) decide(c *Term) bool { return p.decideK(c, 0, false, false) }

func (p *Path) decideK(c *Term, k uint64, hasK bool, knownSat bool) bool {
	if c.Op == OpConst {
		return c.C != 0
	}
	if c.W != 0 {
		panic("decide on non-bool")
	}
	if p.spec {
		panic(specAbort{})
	}
	p.res.Decisions++
	n := len(p.trace)
	if n < len(p.prefix) {
		d := p.prefix[n]
		p.trace = append(p.trace, d)
		if !d.Forced {
			if d.B {
				p.addPC(c)
			} else {
				p.addPC(p.st.Not(c))
			}
		}
		return d.B
	}
	if !p.deadline.IsZero() && time.Now().After(p.deadline) {
		p.abort("unwind", "wall budget exhausted")
	}
	p.sol.SetTimeout(p.eng.cfg.FeasMs)
	if !knownSat {
		rT := p.sol.CheckWith(p.st, c)
		if rT == Unsat {
			// maybe the PC itself is infeasible; we find out lazily
			p.trace = append(p.trace, Decision{B: false, Forced: true, K: k, HasK: hasK})
			return false
		}
	}
	rF := p.sol.CheckWith(p.st, p.st.Not(c))
	if rF == Unsat {
		p.trace = append(p.trace, Decision{B: true, Forced: true, K: k, HasK: hasK})
		return true
	}
	// both feasible (or unknown): fork
	alt := make([]Decision, n+1)
	copy(alt, p.trace)
	alt[n] = Decision{B: false, K: k, HasK: hasK}
	p.pending = append(p.pending, alt)
	p.res.Forks++
	p.trace = append(p.trace, Decision{B: true, K: k, HasK: hasK})
	p.addPC(c)
	return true
}

// assume adds c to the path condition; the path dies if c is (syntactically) false.
func (p *Path) assume(c *Term) {
	if c.IsTrue() {
		return
	}
	if c.IsFalse() {
		p.abort("assumefalse", "assumption false")
	}
	p.addPC(c)
}

// feasible asks whether PC ∧ c is satisfiable (unknown counts as feasible).
func (p *Path) feasible(c *Term) bool {
	if c.IsTrue() {
		return true
	}
	if c.IsFalse() {
		return false
	}
	p.sol.SetTimeout(p.eng.cfg.FeasMs)
	return p.sol.CheckWith(p.st, c) != Unsat
}

// concretize case-splits a term over values 0..hi and returns the value taken on this path. Candidate values
// come from solver models (recorded in the decision vector so that re-execution is deterministic).
// If a value above hi is feasible, that is an unwinding failure.
func (p *Path) concretize(v *Term, hi int, what string) int {
	if v.Op == OpConst {
		return int(sext64(v.C, v.W))
	}
	if p.spec {
		panic(specAbort{})
	}
	for iter := 0; ; iter++ {
		if iter > hi+2 {
			p.abort("unwind", "%s: too many candidate values (bound %d)", what, hi)
		}
		var k uint64
		n := len(p.trace)
		knownSat := false
		if n < len(p.prefix) {
			d := p.prefix[n]
			if !d.HasK {
				panic("concretize: decision vector out of sync")
			}
			k = d.K
		} else {
			p.sol.SetTimeout(p.eng.cfg.FeasMs)
			p.sol.Push()
			r := p.sol.Check()
			if r == Unsat {
				p.sol.Pop()
				p.abort("infeasible", "path condition unsatisfiable")
			}
			if r == Unknown {
				p.sol.Pop()
				p.abort("unknown", "%s: solver unknown while concretising", what)
			}
			vals, err := p.sol.GetValues(p.st, []*Term{v})
			p.sol.Pop()
			if err != nil {
				p.abort("unknown", "%s: %v", what, err)
			}
			k = vals[0]
			knownSat = true
		}
		if sext64(k, v.W) < 0 || sext64(k, v.W) > int64(hi) {
			p.abort("unwind", "%s: symbolic value %d exceeds bound %d", what, sext64(k, v.W), hi)
		}
		if p.decideK(p.st.Eq(v, p.st.BV(v.W, k)), k, true, knownSat) {
			return int(k)
		}
	}
}

// ---- inputs ----

func (p *Path) newInputScalar(kind string, w int) *Term {
	t := p.fresh("in_"+kind, w)
	p.inputs = append(p.inputs, Input{Kind: kind, Name: t.Name, T: t})
	return t
}

// newInputFixed: n fresh byte variables (content of a fixed-length string / byte slice input)
func (p *Path) newInputFixed(kind string, n int) []*Term {
	bs := make([]*Term, n)
	for i := range bs {
		bs[i] = p.fresh("in_b", 8)
	}
	p.inputs = append(p.inputs, Input{Kind: kind, Name: fmt.Sprintf("fixed!%d", p.nvar), T: p.st.BV(64, uint64(n)), Bs: bs})
	return bs
}

func (p *Path) newInputBytes(kind string, max int) (arr, n *Term) {
	p.nvar++
	arr = p.st.Arr(fmt.Sprintf("in_arr!%d", p.nvar))
	n = p.st.Var(fmt.Sprintf("in_len!%d", p.nvar), 64)
	p.inputs = append(p.inputs, Input{Kind: kind, Name: arr.Name, T: n, Arr: arr, Max: max})
	p.assume(p.st.Cmp(OpUle, n, p.st.BV(64, uint64(max))))
	return
}

// model extracts concrete input values from the solver's current model (call right after a Sat answer).
func (p *Path) model() ([]InputVal, *Model, error) {
	var ts []*Term
	for _, in := range p.inputs {
		ts = append(ts, in.T)
	}
	vals, err := p.sol.GetValues(p.st, ts)
	if err != nil {
		return nil, nil, err
	}
	m := &Model{Vars: map[string]uint64{}, Arrs: map[string]map[uint64]uint8{}, ArrD: map[string]uint8{}, UFs: map[string]uint64{}}
	out := make([]InputVal, len(p.inputs))
	var sel []*Term
	type selRef struct{ in, j int }
	var refs []selRef
	for i, in := range p.inputs {
		out[i] = InputVal{Kind: in.Kind, Name: in.Name, U: vals[i]}
		if in.T.Op == OpVar {
			m.Vars[in.T.Name] = vals[i]
		}
		if in.Bs != nil || (in.Arr == nil && (in.Kind == "string" || in.Kind == "bytes")) {
			out[i].Bytes = make([]byte, len(in.Bs))
			for j, b := range in.Bs {
				sel = append(sel, b)
				refs = append(refs, selRef{i, j})
			}
		}
		if in.Arr != nil {
			n := int(vals[i])
			if vals[i] > uint64(in.Max) {
				n = in.Max
			}
			if n > modelByteCap {
				n = modelByteCap
				out[i].Truncated = true
			}
			out[i].Bytes = make([]byte, n)
			for j := 0; j < n; j++ {
				sel = append(sel, p.st.Select(in.Arr, p.st.BV(64, uint64(j))))
				refs = append(refs, selRef{i, j})
			}
		}
	}
	if len(sel) > 0 {
		sv, err := p.sol.GetValues(p.st, sel)
		if err != nil {
			return nil, nil, err
		}
		for k, r := range refs {
			out[r.in].Bytes[r.j] = byte(sv[k])
			if p.inputs[r.in].Arr == nil {
				m.Vars[p.inputs[r.in].Bs[r.j].Name] = sv[k]
				continue
			}
			name := p.inputs[r.in].Arr.Name
			if m.Arrs[name] == nil {
				m.Arrs[name] = map[uint64]uint8{}
			}
			m.Arrs[name][uint64(r.j)] = byte(sv[k])
		}
	}
	return out, m, nil
}

// ---- harness primitives ----

func (p *Path) event(s string) { p.res.Events = append(p.res.Events, s) }

func (p *Path) doAssert(c *Term, id string, site string) {
	p.event("assert:" + id)
	p.eng.noteAssert(p.harness, id)
	if c.IsTrue() {
		return
	}
	p.sol.SetTimeout(p.eng.cfg.ObligMs)
	r := p.sol.CheckWithFallback(p.st, p.st.Not(c), p.eng.cfg.ObligMs)
	p.eng.countOblig(p.harness)
	switch r {
	case Unsat:
		return
	case Unknown:
		p.res.Unknowns = append(p.res.Unknowns, "assert:"+id+" at "+site)
		p.assume(c)
	case Sat:
		// get the model under PC ∧ ¬c
		iv, _ := p.smallModel(p.st.Not(c))
		p.res.Violations = append(p.res.Violations, Violation{Harness: p.harness, Kind: "assert", ID: id, Site: site, Inputs: iv, Events: append([]string(nil), p.res.Events...)})
		// continue on the side where the assertion holds
		if !p.feasible(c) {
			p.abort("infeasible", "assertion fails on the whole path")
		}
		p.assume(c)
	}
}

func (p *Path) doCover(id string) {
	p.event("cover:" + id)
	p.eng.noteCover(p.harness, id, p)
}

// reportPanic is called when a program panic reaches the harness top level.
func (p *Path) reportPanic(tp targetPanic) {
	msg := p.panicMsg(tp.v)
	// is the path really feasible?
	p.sol.SetTimeout(p.eng.cfg.ObligMs)
	r := p.sol.CheckWith(p.st, p.st.True)
	p.eng.countOblig(p.harness)
	switch r {
	case Unsat:
		p.res.Outcome = "infeasible"
		return
	case Unknown:
		p.res.Outcome = "unknown"
		p.res.Unknowns = append(p.res.Unknowns, "panic feasibility: "+msg+" at "+tp.site)
		return
	}
	iv, _ := p.smallModel(nil)
	p.res.Outcome = "panic"
	p.res.Msg = msg
	p.res.Violations = append(p.res.Violations, Violation{Harness: p.harness, Kind: "panic", ID: "no-panic", Msg: msg, Site: tp.site, Inputs: iv, Events: append([]string(nil), p.res.Events...)})
}

func (p *Path) panicMsg(v Value) string {
	switch v := v.(type) {
	case Iface:
		if s, ok := v.V.(*Str); ok && s.IsConc() {
			return s.S
		}
		if v.T != nil {
			// error value: try its message for *errors.errorString-like structs
			if pv, ok := v.V.(*Value); ok && pv != nil {
				if st, ok := (*pv).(Struct); ok && len(st) > 0 {
					if s, ok := st[0].(*Str); ok && s.IsConc() {
						return v.T.String() + ": " + s.S
					}
				}
			}
			return "panic value of type " + v.T.String()
		}
		return "panic(nil)"
	case *Str:
		if v.IsConc() {
			return v.S
		}
	}
	return "panic: " + valString(v)
}

func (p *Path) pos(pos token.Pos) string {
	if pos == token.NoPos {
		return "?"
	}
	ps := p.eng.prog.Fset.Position(pos)
	f := ps.Filename
	if i := strings.LastIndex(f, "/"); i >= 0 {
		if j := strings.LastIndex(f[:i], "/"); j >= 0 {
			f = f[j+1:]
		}
	}
	return fmt.Sprintf("%s:%d", f, ps.Line)
}

// ---- engine-level aggregation ----

type coverInfo struct {
	hit bool
}

type Engine struct {
	prog       *ssa.Program
	cfg        Config
	mu         sync.Mutex
	covers     map[string]map[string]bool
	asserts    map[string]map[string]int
	obligs     map[string]int
	modelN     map[string]int
	funcs      map[string]int
	stubsUsed  map[string]map[string]bool
	pkgByPath  map[string]*ssa.Package
	sizes      types.Sizes
	sharedGlobals map[*ssa.Global]*Value
	sharedDone    map[*ssa.Package]bool
	sharedMu      sync.Mutex
	intrinsics map[string]intrinsic
	pure       map[*ssa.Function]*pureInfo
	pureMu     sync.Mutex
}

func (e *Engine) noteAssert(h, id string) {
	e.mu.Lock()
	if e.asserts[h] == nil {
		e.asserts[h] = map[string]int{}
	}
	e.asserts[h][id]++
	e.mu.Unlock()
}

func (e *Engine) noteCover(h, id string, p *Path) {
	e.mu.Lock()
	if e.covers[h] == nil {
		e.covers[h] = map[string]bool{}
	}
	seen := e.covers[h][id]
	e.mu.Unlock()
	if seen {
		return
	}
	// witness needed: the path condition must be satisfiable here
	p.sol.SetTimeout(p.eng.cfg.ObligMs)
	if p.sol.CheckWith(p.st, p.st.True) == Sat {
		e.mu.Lock()
		e.covers[h][id] = true
		e.mu.Unlock()
	}
}

func (e *Engine) countOblig(h string) {
	e.mu.Lock()
	e.obligs[h]++
	e.mu.Unlock()
}

func (e *Engine) noteStub(h, name string) {
	e.mu.Lock()
	if e.stubsUsed[h] == nil {
		e.stubsUsed[h] = map[string]bool{}
	}
	e.stubsUsed[h][name] = true
	e.mu.Unlock()
}

// wantModel reports whether another per-path model should be extracted for harness h (cfg.ModelMax per harness).
func (e *Engine) wantModel(h string) bool {
	e.mu.Lock()
	defer e.mu.Unlock()
	if e.cfg.ModelMax > 0 && e.modelN[h] >= e.cfg.ModelMax {
		return false
	}
	e.modelN[h]++
	return true
}

func sortedKeys[V any](m map[string]V) []string {
	ks := make([]string, 0, len(m))
	for k := range m {
		ks = append(ks, k)
	}
	sort.Strings(ks)
	return ks
}

// evalObserved evaluates the recorded observations under a model (for native cross-validation).
func (p *Path) evalObserved(m *Model) {
	for _, o := range p.obsList {
		var s string
		ok := true
		switch v := o.v.(type) {
		case *Term:
			x, good := m.Eval(v)
			ok = good
			s = fmt.Sprintf("%d", x)
		case *Str, []Value, *SymSlice:
			var bs []byte
			sv := p.seqViewNoFork(v)
			n, good := m.Eval(sv.n)
			ok = good
			for i := uint64(0); i < n && i < 1<<16; i++ {
				b, g2 := m.Eval(sv.at(p.st.BV(64, i)))
				ok = ok && g2
				bs = append(bs, byte(b))
			}
			s = fmt.Sprintf("%x", bs)
		default:
			ok = false
		}
		if !ok {
			s = "?"
		}
		p.res.Observed = append(p.res.Observed, Observed{ID: o.id, Val: s})
	}
}

func (p *Path) seqViewNoFork(v Value) seqView { return p.seqView(v) }


// smallModel returns a model of PC ∧ extra, preferring one whose input buffers are short enough to replay natively.
func (p *Path) smallModel(extra *Term) ([]InputVal, *Model) {
	p.sol.SetTimeout(p.eng.cfg.ObligMs)
	p.sol.Push()
	defer p.sol.Pop()
	if extra != nil {
		p.sol.Assert(p.st, extra)
	}
	big := false
	for _, in := range p.inputs {
		if in.Arr != nil && in.Max > modelByteCap {
			big = true
		}
	}
	_ = big
	anyArr := false
	for _, in := range p.inputs {
		if in.Arr != nil {
			anyArr = true
		}
	}
	for _, cap := range []uint64{8, 32, 256, modelByteCap} {
		if !anyArr {
			break
		}
		need := false
		for _, in := range p.inputs {
			if in.Arr != nil && uint64(in.Max) > cap {
				need = true
			}
		}
		if !need && cap != 8 {
			break
		}
		p.sol.Push()
		for _, in := range p.inputs {
			if in.Arr != nil && uint64(in.Max) > cap {
				p.sol.Assert(p.st, p.st.Cmp(OpUle, in.T, p.st.BV(64, cap)))
			}
		}
		if p.sol.Check() == Sat {
			iv, m, err := p.model()
			p.sol.Pop()
			if err == nil {
				return iv, m
			}
			return nil, nil
		}
		p.sol.Pop()
	}
	if p.sol.Check() == Sat {
		iv, m, err := p.model()
		if err == nil {
			return iv, m
		}
	}
	return nil, nil
}
