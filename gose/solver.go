package gose

// Solver: a long-lived SMT-LIB2 process (z3 -in by default) with push/pop.

import (
	"bufio"
	"fmt"
	"io"
	"os"
	"os/exec"
	"strconv"
	"strings"
	"time"
)

var slowLog = os.Getenv("GOSE_SLOWLOG") != ""

type Result int

const (
	Unsat Result = iota
	Sat
	Unknown
)

func (r Result) String() string { return [...]string{"unsat", "sat", "unknown"}[r] }

type Solver struct {
	Kind    string // z3 | z3-new | cvc5
	cmd     *exec.Cmd
	in      io.WriteCloser
	w       *bufio.Writer
	out     *bufio.Reader
	defined []map[*Term]bool // per push level
	declUF  []map[string]bool
	Queries int
	Time    time.Duration
	Unknown int
	Errors  int
	broken  bool
	mirror  [][]string // per push level: every declaration/definition/assertion line sent (for re-deciding a query with another solver)
	Fallbacks int
	Log     io.Writer
	timeout int // ms
	buf     strings.Builder
}

func NewSolver(kind string, timeoutMs int) (*Solver, error) {
	var cmd *exec.Cmd
	switch kind {
	case "z3":
		cmd = exec.Command("/usr/bin/z3", "-in", "-smt2")
	case "", "z3-new":
		kind = "z3-new"
		cmd = exec.Command("z3-new", "-in", "-smt2")
	case "cvc5":
		cmd = exec.Command("cvc5", "--incremental", "--lang=smt2", "--produce-models", fmt.Sprintf("--tlimit-per=%d", timeoutMs))
	case "cvc5-int":
		cmd = exec.Command("cvc5", "--incremental", "--lang=smt2", "--produce-models", "--solve-bv-as-int=sum", fmt.Sprintf("--tlimit-per=%d", timeoutMs))
	default:
		return nil, fmt.Errorf("unknown solver %q", kind)
	}
	in, err := cmd.StdinPipe()
	if err != nil {
		return nil, err
	}
	out, err := cmd.StdoutPipe()
	if err != nil {
		return nil, err
	}
	cmd.Stderr = os.Stderr
	if err := cmd.Start(); err != nil {
		return nil, err
	}
	s := &Solver{Kind: kind, cmd: cmd, in: in, w: bufio.NewWriterSize(in, 1<<16), out: bufio.NewReaderSize(out, 1<<16), timeout: timeoutMs}
	s.defined = []map[*Term]bool{{}}
	s.declUF = []map[string]bool{{}}
	s.mirror = [][]string{nil}
	if strings.HasPrefix(kind, "z3") {
		s.send("(set-option :produce-models true)")
		s.send(fmt.Sprintf("(set-option :timeout %d)", timeoutMs))
	} else {
		s.send("(set-logic ALL)")
	}
	return s, nil
}

func (s *Solver) SetTimeout(ms int) {
	if ms == s.timeout {
		return
	}
	s.timeout = ms
	if strings.HasPrefix(s.Kind, "z3") {
		s.send(fmt.Sprintf("(set-option :timeout %d)", ms))
	}
}

func (s *Solver) Close() {
	if s.cmd != nil {
		s.w.Flush()
		s.in.Close()
		s.cmd.Process.Kill()
		s.cmd.Wait()
		s.cmd = nil
	}
}

func (s *Solver) send(line string) {
	if s.Log != nil {
		fmt.Fprintln(s.Log, line)
	}
	s.w.WriteString(line)
	s.w.WriteByte('\n')
	if len(line) > 3 && (line[1] == 'd' || line[1] == 'a') { // (declare-fun / (define-fun / (assert
		s.mirror[len(s.mirror)-1] = append(s.mirror[len(s.mirror)-1], line)
	}
}

func (s *Solver) Push() {
	s.send("(push 1)")
	s.mirror = append(s.mirror, nil)
	s.defined = append(s.defined, map[*Term]bool{})
	s.declUF = append(s.declUF, map[string]bool{})
}

func (s *Solver) Pop() {
	s.send("(pop 1)")
	s.mirror = s.mirror[:len(s.mirror)-1]
	s.defined = s.defined[:len(s.defined)-1]
	s.declUF = s.declUF[:len(s.declUF)-1]
}

func (s *Solver) isDefined(t *Term) bool {
	for i := len(s.defined) - 1; i >= 0; i-- {
		if s.defined[i][t] {
			return true
		}
	}
	return false
}

func (s *Solver) ufDeclared(n string) bool {
	for i := len(s.declUF) - 1; i >= 0; i-- {
		if s.declUF[i][n] {
			return true
		}
	}
	return false
}

func tname(t *Term) string { return "t!" + strconv.Itoa(t.ID) }

// ref makes sure t is declared/defined in the solver and returns the text that refers to it.
func (s *Solver) ref(st *Store, t *Term) string {
	switch t.Op {
	case OpConst:
		return constStr(t)
	}
	if s.isDefined(t) {
		if t.Op == OpVar || t.Op == OpArr {
			return t.Name
		}
		return tname(t)
	}
	// iterative post-order to avoid deep recursion
	type item struct {
		t *Term
		i int
	}
	stack := []item{{t, 0}}
	for len(stack) > 0 {
		top := &stack[len(stack)-1]
		cur := top.t
		if top.i < len(cur.Args) {
			a := cur.Args[top.i]
			top.i++
			if a.Op != OpConst && !s.isDefined(a) {
				stack = append(stack, item{a, 0})
			}
			continue
		}
		stack = stack[:len(stack)-1]
		if s.isDefined(cur) {
			continue
		}
		s.emitDef(st, cur)
	}
	if t.Op == OpVar || t.Op == OpArr {
		return t.Name
	}
	return tname(t)
}

func (s *Solver) argRef(a *Term) string {
	switch a.Op {
	case OpConst:
		return constStr(a)
	case OpVar, OpArr:
		return a.Name
	}
	return tname(a)
}

func (s *Solver) emitDef(st *Store, t *Term) {
	lvl := s.defined[len(s.defined)-1]
	switch t.Op {
	case OpVar, OpArr:
		s.send(fmt.Sprintf("(declare-fun %s () %s)", t.Name, sortStr(t.W)))
		lvl[t] = true
		return
	case OpUF:
		if !s.ufDeclared(t.Name) {
			sig := st.ufs[t.Name]
			var as []string
			for _, w := range sig.argW {
				as = append(as, sortStr(w))
			}
			s.send(fmt.Sprintf("(declare-fun %s (%s) %s)", t.Name, strings.Join(as, " "), sortStr(sig.resW)))
			s.declUF[len(s.declUF)-1][t.Name] = true
		}
	}
	args := make([]string, len(t.Args))
	for i, a := range t.Args {
		args[i] = s.argRef(a)
	}
	var body string
	switch t.Op {
	case OpFpCvt:
		body = fmt.Sprintf("(fp.to_ieee_bv ((_ to_fp %s) RNE ((_ to_fp %s) %s)))", fpSort(uint64(t.W)), fpSort(t.C), args[0])
	case OpFpAdd, OpFpSub, OpFpMul, OpFpDiv:
		n := map[Op]string{OpFpAdd: "fp.add", OpFpSub: "fp.sub", OpFpMul: "fp.mul", OpFpDiv: "fp.div"}[t.Op]
		body = fmt.Sprintf("(fp.to_ieee_bv (%s RNE ((_ to_fp %s) %s) ((_ to_fp %s) %s)))", n, fpSort(t.C), args[0], fpSort(t.C), args[1])
	case OpFpToSI:
		body = fmt.Sprintf("((_ fp.to_sbv %d) RTZ ((_ to_fp %s) %s))", t.W, fpSort(t.C), args[0])
	case OpFpToUI:
		body = fmt.Sprintf("((_ fp.to_ubv %d) RTZ ((_ to_fp %s) %s))", t.W, fpSort(t.C), args[0])
	case OpSIToFp:
		body = fmt.Sprintf("(fp.to_ieee_bv ((_ to_fp %s) RNE %s))", fpSort(uint64(t.W)), args[0])
	case OpUIToFp:
		body = fmt.Sprintf("(fp.to_ieee_bv ((_ to_fp_unsigned %s) RNE %s))", fpSort(uint64(t.W)), args[0])
	default:
		body = t.smt(args)
	}
	s.send(fmt.Sprintf("(define-fun %s () %s %s)", tname(t), sortStr(t.W), body))
	lvl[t] = true
}

func (s *Solver) Assert(st *Store, t *Term) {
	r := s.ref(st, t)
	s.send("(assert " + r + ")")
}

func (s *Solver) readLine() (string, error) {
	line, err := s.out.ReadString('\n')
	return strings.TrimRight(line, "\r\n"), err
}

// Check runs check-sat under the current assertions.
func (s *Solver) Check() Result {
	t0 := time.Now()
	s.send("(check-sat)")
	s.w.Flush()
	s.Queries++
	res := Unknown
	for {
		line, err := s.readLine()
		if err != nil {
			s.Errors++
			s.broken = true
			res = Unknown
			break
		}
		if line == "" {
			continue
		}
		if strings.HasPrefix(line, "(error") {
			s.Errors++
			fmt.Fprintf(os.Stderr, "gose: solver error: %s\n", line)
			continue // the verdict line still follows; mark as unknown afterwards
		}
		switch line {
		case "sat":
			res = Sat
		case "unsat":
			res = Unsat
		case "unknown", "timeout":
			res = Unknown
		default:
			fmt.Fprintf(os.Stderr, "gose: unexpected solver output: %q\n", line)
			continue
		}
		break
	}
	s.Time += time.Since(t0)
	if res == Unknown {
		s.Unknown++
	}
	if slowLog && time.Since(t0) > 2*time.Second {
		last := ""
		if lv := s.mirror[len(s.mirror)-1]; len(lv) > 0 {
			last = lv[len(lv)-1]
		}
		n := 0
		for _, lv := range s.mirror {
			n += len(lv)
		}
		fmt.Fprintf(os.Stderr, "gose: slow query %.1fs -> %v (%d mirrored lines) last: %s\n", time.Since(t0).Seconds(), res, n, last)
		if f, err := os.CreateTemp("", "gose_slow_*.smt2"); err == nil {
			for _, lv := range s.mirror {
				for _, l := range lv {
					fmt.Fprintln(f, l)
				}
			}
			fmt.Fprintln(f, "(check-sat)")
			f.Close()
			fmt.Fprintf(os.Stderr, "gose: dumped to %s\n", f.Name())
		}
	}
	return res
}

// CheckWith checks the current assertions plus extra (push/pop around it).
func (s *Solver) CheckWith(st *Store, extra *Term) Result {
	r := s.ref(st, extra) // define outside the push so that definitions persist at this level
	s.send("(push 1)")
	s.mirror = append(s.mirror, nil)
	s.send("(assert " + r + ")")
	res := s.Check()
	s.send("(pop 1)")
	s.mirror = s.mirror[:len(s.mirror)-1]
	return res
}

// CheckWithFallback is CheckWith for final obligations: an `unknown` from the primary solver is re-decided from scratch
// by the other installed solvers (one-shot processes on the mirrored assertion stack).
func (s *Solver) CheckWithFallback(st *Store, extra *Term, timeoutMs int) Result {
	// portfolio: a short attempt with the primary (bit-blasting) solver, then cvc5's exact integer encoding of bit-vectors
	// (decides linear arithmetic over bounded words in milliseconds where bit-blasting does not finish), then the primary with
	// the full budget, then the remaining solvers
	const quickMs = 3000
	staged := timeoutMs > quickMs && strings.HasPrefix(s.Kind, "z3")
	if staged {
		s.SetTimeout(quickMs)
	}
	res := s.CheckWith(st, extra)
	if staged {
		s.SetTimeout(timeoutMs)
	}
	if res != Unknown {
		return res
	}
	r := s.ref(st, extra)
	var b strings.Builder
	b.WriteString("(set-logic ALL)\n")
	for _, lvl := range s.mirror {
		for _, l := range lvl {
			b.WriteString(l)
			b.WriteByte('\n')
		}
	}
	b.WriteString("(assert " + r + ")\n(check-sat)\n")
	f, err := os.CreateTemp("", "gose_q_*.smt2")
	if err != nil {
		return Unknown
	}
	defer os.Remove(f.Name())
	f.WriteString(b.String())
	f.Close()
	secs := timeoutMs/1000 + 1
	first := []string{"/usr/bin/z3", "-smt2", fmt.Sprintf("-T:%d", secs), f.Name()}
	if s.Kind == "z3" {
		first[0] = "z3-new"
	}
	intMs := timeoutMs
	if intMs > 20000 {
		intMs = 20000
	}
	alts := [][]string{{"cvc5", "--lang=smt2", "--solve-bv-as-int=sum", fmt.Sprintf("--tlimit=%d", intMs), f.Name()}}
	if staged {
		alts = append(alts, nil) // nil = the primary again, full budget
	}
	alts = append(alts, first, []string{"cvc5", "--lang=smt2", fmt.Sprintf("--tlimit=%d", timeoutMs), f.Name()})
	for _, alt := range alts {
		if alt == nil {
			if res := s.CheckWith(st, extra); res != Unknown {
				return res
			}
			continue
		}
		out, _ := exec.Command(alt[0], alt[1:]...).Output()
		txt := string(out)
		if strings.Contains(txt, "(error") {
			continue
		}
		switch strings.TrimSpace(strings.SplitN(txt, "\n", 2)[0]) {
		case "sat":
			s.Fallbacks++
			return Sat
		case "unsat":
			s.Fallbacks++
			return Unsat
		}
	}
	return Unknown
}

// readSexp reads one balanced s-expression (possibly multi-line) from the solver.
func (s *Solver) readSexp() (string, error) {
	var b strings.Builder
	depth := 0
	started := false
	for {
		line, err := s.readLine()
		if err != nil {
			return b.String(), err
		}
		for _, ch := range line {
			if ch == '(' {
				depth++
				started = true
			} else if ch == ')' {
				depth--
			}
		}
		b.WriteString(line)
		b.WriteByte(' ')
		if started && depth <= 0 {
			return b.String(), nil
		}
		if !started && strings.TrimSpace(line) != "" {
			return b.String(), nil
		}
	}
}

// GetValues returns the values of the given terms in the current model (after a Sat check,
// with the same assertion stack). Terms must be Bool/BV.
func (s *Solver) GetValues(st *Store, ts []*Term) ([]uint64, error) {
	if len(ts) == 0 {
		return nil, nil
	}
	out := make([]uint64, 0, len(ts))
	const chunk = 200
	for i := 0; i < len(ts); i += chunk {
		j := i + chunk
		if j > len(ts) {
			j = len(ts)
		}
		refs := make([]string, j-i)
		for k, t := range ts[i:j] {
			refs[k] = s.ref(st, t)
		}
		s.send("(get-value (" + strings.Join(refs, " ") + "))")
		s.w.Flush()
		sx, err := s.readSexp()
		if err != nil {
			return nil, err
		}
		if strings.Contains(sx, "(error") {
			return nil, fmt.Errorf("get-value: %s", sx)
		}
		vals := parseValueList(sx)
		if len(vals) != j-i {
			return nil, fmt.Errorf("get-value: expected %d values, got %d in %q", j-i, len(vals), sx)
		}
		out = append(out, vals...)
	}
	return out, nil
}

// parseValueList extracts the literal values from "((e1 v1) (e2 v2) ...)": each value is the last
// token (#x.., #b.., true, false, or (_ bvN w)) of each pair.
func parseValueList(sx string) []uint64 {
	var vals []uint64
	// tokenise
	toks := tokenize(sx)
	// walk: depth 2 lists are pairs; the value is the last literal token before the closing paren at depth 2
	depth := 0
	var last string
	havelast := false
	for i := 0; i < len(toks); i++ {
		t := toks[i]
		switch t {
		case "(":
			depth++
			// (_ bvN w)
			if i+3 < len(toks) && toks[i+1] == "_" && strings.HasPrefix(toks[i+2], "bv") {
				last = toks[i+2]
				havelast = true
			}
		case ")":
			if depth == 2 && havelast {
				vals = append(vals, parseLit(last))
				havelast = false
			}
			depth--
		default:
			if depth >= 2 && (strings.HasPrefix(t, "#") || t == "true" || t == "false") {
				last = t
				havelast = true
			}
		}
	}
	return vals
}

func tokenize(s string) []string {
	var toks []string
	cur := strings.Builder{}
	flush := func() {
		if cur.Len() > 0 {
			toks = append(toks, cur.String())
			cur.Reset()
		}
	}
	for _, ch := range s {
		switch ch {
		case '(', ')':
			flush()
			toks = append(toks, string(ch))
		case ' ', '\t', '\n', '\r':
			flush()
		default:
			cur.WriteRune(ch)
		}
	}
	flush()
	return toks
}

func parseLit(t string) uint64 {
	switch {
	case t == "true":
		return 1
	case t == "false":
		return 0
	case strings.HasPrefix(t, "#x"):
		v, _ := strconv.ParseUint(t[2:], 16, 64)
		return v
	case strings.HasPrefix(t, "#b"):
		v, _ := strconv.ParseUint(t[2:], 2, 64)
		return v
	case strings.HasPrefix(t, "bv"):
		v, _ := strconv.ParseUint(t[2:], 10, 64)
		return v
	}
	return 0
}
