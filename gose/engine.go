package gose

import (
	"fmt"
	"go/token"
	"go/types"
	"os"
	"sort"
	"strings"
	"sync"
	"time"

	"golang.org/x/tools/go/packages"
	"golang.org/x/tools/go/ssa"
	"golang.org/x/tools/go/ssa/ssautil"
)

type LoadConfig struct {
	Dir      string
	Patterns []string
	Overlay  map[string][]byte
	Tags     []string
	Env      []string
}

type Program struct {
	Stdlib map[string]bool
	Prog  *ssa.Program
	Pkgs  []*ssa.Package
	PPkgs []*packages.Package
	Fset  *token.FileSet
}

func Load(lc LoadConfig) (*Program, error) {
	cfg := &packages.Config{
		Mode:    packages.NeedName | packages.NeedFiles | packages.NeedCompiledGoFiles | packages.NeedImports | packages.NeedDeps | packages.NeedTypes | packages.NeedTypesSizes | packages.NeedSyntax | packages.NeedTypesInfo | packages.NeedModule,
		Dir:     lc.Dir,
		Overlay: lc.Overlay,
		Env:     append(os.Environ(), lc.Env...),
		Tests:   false,
	}
	if len(lc.Tags) > 0 {
		cfg.BuildFlags = []string{"-tags=" + strings.Join(lc.Tags, ",")}
	}
	initial, err := packages.Load(cfg, lc.Patterns...)
	if err != nil {
		return nil, err
	}
	var errs []string
	stdlib := map[string]bool{}
	packages.Visit(initial, nil, func(pkg *packages.Package) {
		if pkg.Module == nil {
			stdlib[pkg.PkgPath] = true
		}
		for _, e := range pkg.Errors {
			errs = append(errs, e.Error())
		}
	})
	if len(errs) > 0 {
		if len(errs) > 20 {
			errs = errs[:20]
		}
		return nil, fmt.Errorf("package load errors:\n%s", strings.Join(errs, "\n"))
	}
	prog, pkgs := ssautil.AllPackages(initial, ssa.InstantiateGenerics|ssa.SanityCheckFunctions&0)
	prog.Build()
	return &Program{Stdlib: stdlib, Prog: prog, Pkgs: pkgs, PPkgs: initial, Fset: prog.Fset}, nil
}

func NewEngine(pr *Program, cfg Config) *Engine {
	if cfg.Workers <= 0 {
		cfg.Workers = 1
	}
	if cfg.FeasMs == 0 {
		cfg.FeasMs = 10000
	}
	if cfg.ObligMs == 0 {
		cfg.ObligMs = 120000
	}
	if cfg.MaxSteps == 0 {
		cfg.MaxSteps = 2000000
	}
	if cfg.MaxLoop == 0 {
		cfg.MaxLoop = 1000
	}
	if cfg.MaxDepth == 0 {
		cfg.MaxDepth = 200
	}
	if cfg.MaxPaths == 0 {
		cfg.MaxPaths = 1000000
	}
	e := &Engine{prog: pr.Prog, cfg: cfg,
		covers: map[string]map[string]bool{}, asserts: map[string]map[string]int{},
		funcs: map[string]int{}, stubsUsed: map[string]bool{}, pkgByPath: map[string]*ssa.Package{},
		sharedGlobals: map[*ssa.Global]*Value{}, sharedDone: map[*ssa.Package]bool{},
	}
	for _, pk := range pr.Prog.AllPackages() {
		e.pkgByPath[pk.Pkg.Path()] = pk
	}
	e.intrinsics = builtinIntrinsics()
	stdlibSet = pr.Stdlib
	return e
}

func (e *Engine) funcByName(pkgPath, name string) *ssa.Function {
	pk := e.pkgByPath[pkgPath]
	if pk == nil {
		return nil
	}
	return pk.Func(name)
}

func (e *Engine) runtimeErrorType() types.Type {
	if pk := e.pkgByPath["runtime"]; pk != nil {
		if t := pk.Type("errorString"); t != nil {
			return t.Object().Type()
		}
	}
	return types.Universe.Lookup("error").Type()
}

var stdlibSet map[string]bool

func isStdlib(path string) bool {
	if stdlibSet != nil {
		return stdlibSet[path]
	}
	first := path
	if i := strings.Index(path, "/"); i >= 0 {
		first = path[:i]
	}
	return !strings.Contains(first, ".")
}

// stdlib packages whose initialisers are pure tables / error values: run once and shared read-only by all paths.
var sharedInitPkgs = map[string]bool{
	"errors": false, "io": true, "unicode/utf8": true, "strconv": true, "encoding/binary": true,
	"encoding/base64": true, "math": true, "math/bits": true, "sort": true, "strings": true, "bytes": true,
	"unicode": true, "container/list": true, "slices": true, "cmp": true, "unicode/utf16": true,
	"encoding/hex": true, "io/fs": true, "context": true, "math/rand": false, "hash/crc32": true,
	"internal/oserror": true, "internal/bytealg": false, "encoding/json": false, "fmt": false, "time": false, "sync": false,
	"bufio": true, "internal/itoa": true, "internal/stringslite": true, "iter": true, "maps": true,
}

func (e *Engine) initAllowed(pkg *ssa.Package) bool {
	path := pkg.Pkg.Path()
	if isStdlib(path) {
		return sharedInitPkgs[path]
	}
	if strings.HasPrefix(path, "golang.org/x/") {
		return false
	}
	return true
}

func (e *Engine) isShared(pkg *ssa.Package) bool {
	path := pkg.Pkg.Path()
	return isStdlib(path) && sharedInitPkgs[path]
}

// ---- harness execution ----

type HarnessResult struct {
	Name        string
	Paths       int
	Outcomes    map[string]int
	Decisions   int
	Forks       int
	Violations  []Violation
	Unknowns    []string
	Problems    []string // unwind / unsupported / engine errors (make the result inconclusive)
	Covers      map[string]bool
	Asserts     map[string]int
	Queries     int
	Obligations int
	SolverTime  time.Duration
	Wall        time.Duration
	Steps       int
	Funcs       map[string]int
	Stubs       []string
	Models      [][]InputVal // one per completed path when ModelPerPath
	ModelEvents [][]string
	ModelObs    [][]Observed
	Truncated   bool
}

type workQueue struct {
	mu      sync.Mutex
	cond    *sync.Cond
	items   [][]Decision
	active  int
	stopped bool
}

func (q *workQueue) push(it []Decision) {
	q.mu.Lock()
	q.items = append(q.items, it)
	q.mu.Unlock()
	q.cond.Signal()
}

func (q *workQueue) pop() ([]Decision, bool) {
	q.mu.Lock()
	defer q.mu.Unlock()
	for {
		if q.stopped {
			return nil, false
		}
		if n := len(q.items); n > 0 {
			it := q.items[n-1]
			q.items = q.items[:n-1]
			q.active++
			return it, true
		}
		if q.active == 0 {
			q.cond.Broadcast()
			return nil, false
		}
		q.cond.Wait()
	}
}

func (q *workQueue) done() {
	q.mu.Lock()
	q.active--
	if q.active == 0 && len(q.items) == 0 {
		q.cond.Broadcast()
	}
	q.mu.Unlock()
}

func (q *workQueue) stop() {
	q.mu.Lock()
	q.stopped = true
	q.mu.Unlock()
	q.cond.Broadcast()
}

// RunHarness explores all paths of the function fn (no arguments).
func (e *Engine) RunHarness(fn *ssa.Function) *HarnessResult {
	t0 := time.Now()
	hr := &HarnessResult{Name: fn.Name(), Outcomes: map[string]int{}, Funcs: map[string]int{}}
	q := &workQueue{}
	q.cond = sync.NewCond(&q.mu)
	q.items = [][]Decision{nil}
	var rmu sync.Mutex
	var wg sync.WaitGroup
	deadline := time.Time{}
	if e.cfg.Wall > 0 {
		deadline = t0.Add(e.cfg.Wall)
	}
	problemSeen := map[string]bool{}
	for w := 0; w < e.cfg.Workers; w++ {
		wg.Add(1)
		go func() {
			defer wg.Done()
			sol, err := NewSolver(e.cfg.SolverKind, e.cfg.FeasMs)
			if err != nil {
				rmu.Lock()
				hr.Problems = append(hr.Problems, "solver start: "+err.Error())
				rmu.Unlock()
				q.stop()
				return
			}
			defer sol.Close()
			for {
				prefix, ok := q.pop()
				if !ok {
					return
				}
				res, pending, funcs := e.runPath(fn, prefix, sol, deadline)
				for _, alt := range pending {
					q.push(alt)
				}
				rmu.Lock()
				hr.Paths++
				hr.Outcomes[res.Outcome]++
				hr.Decisions += res.Decisions
				hr.Forks += res.Forks
				hr.Steps += res.Steps
				hr.Violations = append(hr.Violations, res.Violations...)
				hr.Unknowns = append(hr.Unknowns, res.Unknowns...)
				for f, n := range funcs {
					hr.Funcs[f.String()] = n
				}
				switch res.Outcome {
				case "unwind", "unsupported", "engine-error":
					key := res.Outcome + ": " + res.Msg
					if !problemSeen[key] {
						problemSeen[key] = true
						if len(hr.Problems) < 50 {
							hr.Problems = append(hr.Problems, key)
						}
					}
				}
				if res.Model != nil && len(hr.Models) < 4096 {
					hr.Models = append(hr.Models, res.Model)
					hr.ModelEvents = append(hr.ModelEvents, res.Events)
					hr.ModelObs = append(hr.ModelObs, res.Observed)
				}
				stop := hr.Paths >= e.cfg.MaxPaths || (e.cfg.StopOnViol && len(hr.Violations) > 0) ||
					(!deadline.IsZero() && time.Now().After(deadline))
				rmu.Unlock()
				q.done()
				if stop {
					rmu.Lock()
					hr.Truncated = true
					rmu.Unlock()
					q.stop()
					return
				}
			}
		}()
	}
	wg.Wait()
	q.mu.Lock()
	if len(q.items) > 0 {
		hr.Truncated = true
		hr.Problems = append(hr.Problems, fmt.Sprintf("exploration truncated with %d unexplored prefixes (path/wall budget)", len(q.items)))
	}
	q.mu.Unlock()
	e.mu.Lock()
	hr.Covers = e.covers[fn.Name()]
	hr.Asserts = e.asserts[fn.Name()]
	hr.Obligations = e.obligs
	for s := range e.stubsUsed {
		hr.Stubs = append(hr.Stubs, s)
	}
	sort.Strings(hr.Stubs)
	e.mu.Unlock()
	hr.Wall = time.Since(t0)
	return hr
}

func (e *Engine) newPath(sol *Solver) *Path {
	p := &Path{eng: e, st: NewStore(), sol: sol,
		globals: map[*ssa.Global]*Value{}, initDone: map[*ssa.Package]bool{},
		funcs: map[*ssa.Function]int{}, res: &PathResult{}, observes: map[string]Value{}}
	p.emptyStr = mkStr("")
	return p
}

func (e *Engine) runPath(fn *ssa.Function, prefix []Decision, sol *Solver, deadline time.Time) (res *PathResult, pending [][]Decision, funcs map[*ssa.Function]int) {
	p := e.newPath(sol)
	p.prefix = prefix
	p.harness = fn.Name()
	p.deadline = deadline
	q0, t0 := sol.Queries, sol.Time
	sol.Push()
	defer func() {
		sol.Pop()
		p.res.Queries = sol.Queries - q0
		p.res.SolverTime = sol.Time - t0
		p.res.Steps = p.steps
		res, pending, funcs = p.res, p.pending, p.funcs
	}()
	func() {
		defer func() {
			if r := recover(); r != nil {
				switch r := r.(type) {
				case pathEnd:
					p.res.Outcome = r.kind
					p.res.Msg = r.msg
				case targetPanic:
					p.reportPanic(r)
				default:
					p.res.Outcome = "engine-error"
					p.res.Msg = fmt.Sprintf("%v\n%s", r, stackTrace())
				}
			}
		}()
		p.call(nil, token.NoPos, fn, nil)
		p.finishSched()
		p.res.Outcome = "return"
		if e.cfg.ModelPerPath && len(p.res.Violations) == 0 {
			iv, m := p.smallModel(nil)
			if iv != nil {
				trunc := false
				for _, x := range iv {
					trunc = trunc || x.Truncated
				}
				if !trunc {
					p.res.Model = iv
					p.evalObserved(m)
				}
			}
		}
	}()
	return
}

func (e *Engine) lookupIntrinsic(fn *ssa.Function) intrinsic {
	if fn.Pkg == nil && fn.Origin() == nil && fn.Parent() == nil && fn.Synthetic == "" {
		// methods of instantiated types etc. fall through to name lookup
	}
	name := fn.String()
	if intr, ok := e.intrinsics[name]; ok {
		return intr
	}
	if strings.HasPrefix(fn.Name(), "verif") && fn.Pkg != nil && fn.Signature.Recv() == nil {
		if intr, ok := e.intrinsics["@"+fn.Name()]; ok {
			return intr
		}
	}
	return nil
}

// sharedInit runs the initialiser of a pure stdlib package once; its globals are shared read-only by all paths.
func (e *Engine) sharedInit(pkg *ssa.Package) {
	e.sharedMu.Lock()
	defer e.sharedMu.Unlock()
	if e.sharedDone[pkg] {
		return
	}
	ip := e.newPath(nil)
	ip.isInitPath = true
	ip.ensureInit(pkg)
}
