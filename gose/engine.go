package gose

import (
	"fmt"
	"go/token"
	"go/types"
	"os"
	"sort"
	"strings"
	"sync"
	"time"

	"golang.org/x/tools/go/packages"
	"golang.org/x/tools/go/ssa"
	"golang.org/x/tools/go/ssa/ssautil"
)

type LoadConfig struct {
	Dir      string
	Patterns []string
	Overlay  map[string][]byte
	Tags     []string
	Env      []string
}

type Program struct {
	Stdlib map[string]bool
	Prog  *ssa.Program
	Pkgs  []*ssa.Package
	PPkgs []*packages.Package
	Fset  *token.FileSet
}

func Load(lc LoadConfig) (*Program, error) {
	cfg := &packages.Config{
		Mode:    packages.NeedName | packages.NeedFiles | packages.NeedCompiledGoFiles | packages.NeedImports | packages.NeedDeps | packages.NeedTypes | packages.NeedTypesSizes | packages.NeedSyntax | packages.NeedTypesInfo | packages.NeedModule,
		Dir:     lc.Dir,
		Overlay: lc.Overlay,
		Env:     append(os.Environ(), lc.Env...),
		Tests:   false,
	}
	if len(lc.Tags) > 0 {
		cfg.BuildFlags = []string{"-tags=" + strings.Join(lc.Tags, ",")}
	}
	initial, err := packages.Load(cfg, lc.Patterns...)
	if err != nil {
		return nil, err
	}
	var errs []string
	stdlib := map[string]bool{}
	packages.Visit(initial, nil, func(pkg *packages.Package) {
		if pkg.Module == nil {
			stdlib[pkg.PkgPath] = true
		}
		for _, e := range pkg.Errors {
			errs = append(errs, e.Error())
		}
	})
	if len(errs) > 0 {
		if len(errs) > 20 {
			errs = errs[:20]
		}
		return nil, fmt.Errorf("package load errors:\n%s", strings.Join(errs, "\n"))
	}
	prog, pkgs := ssautil.AllPackages(initial, ssa.InstantiateGenerics|ssa.SanityCheckFunctions&0)
	prog.Build()
	return &Program{Stdlib: stdlib, Prog: prog, Pkgs: pkgs, PPkgs: initial, Fset: prog.Fset}, nil
}

func NewEngine(pr *Program, cfg Config) *Engine {
	if cfg.Workers <= 0 {
		cfg.Workers = 1
	}
	if cfg.FeasMs == 0 {
		cfg.FeasMs = 10000
	}
	if cfg.ObligMs == 0 {
		cfg.ObligMs = 120000
	}
	if cfg.MaxSteps == 0 {
		cfg.MaxSteps = 2000000
	}
	if cfg.MaxLoop == 0 {
		cfg.MaxLoop = 1000
	}
	if cfg.MaxDepth == 0 {
		cfg.MaxDepth = 200
	}
	if cfg.MaxPaths == 0 {
		cfg.MaxPaths = 1000000
	}
	e := &Engine{prog: pr.Prog, cfg: cfg,
		covers: map[string]map[string]bool{}, asserts: map[string]map[string]int{}, obligs: map[string]int{}, modelN: map[string]int{},
		funcs: map[string]int{}, stubsUsed: map[string]map[string]bool{}, pkgByPath: map[string]*ssa.Package{},
		sharedGlobals: map[*ssa.Global]*Value{}, sharedDone: map[*ssa.Package]bool{}, pure: map[*ssa.Function]*pureInfo{},
	}
	for _, pk := range pr.Prog.AllPackages() {
		e.pkgByPath[pk.Pkg.Path()] = pk
	}
	e.intrinsics = builtinIntrinsics()
	stdlibSet = pr.Stdlib
	return e
}

func (e *Engine) funcByName(pkgPath, name string) *ssa.Function {
	pk := e.pkgByPath[pkgPath]
	if pk == nil {
		return nil
	}
	return pk.Func(name)
}

func (e *Engine) runtimeErrorType() types.Type {
	if pk := e.pkgByPath["runtime"]; pk != nil {
		if t := pk.Type("errorString"); t != nil {
			return t.Object().Type()
		}
	}
	return types.Universe.Lookup("error").Type()
}

var stdlibSet map[string]bool

func isStdlib(path string) bool {
	if stdlibSet != nil {
		return stdlibSet[path]
	}
	first := path
	if i := strings.Index(path, "/"); i >= 0 {
		first = path[:i]
	}
	return !strings.Contains(first, ".")
}

// stdlib packages whose initialisers are pure tables / error values: run once and shared read-only by all paths.
var sharedInitPkgs = map[string]bool{
	"errors": false, "io": true, "unicode/utf8": true, "strconv": true, "encoding/binary": true,
	"encoding/base64": true, "math": true, "math/bits": true, "sort": true, "strings": true, "bytes": true,
	"unicode": true, "container/list": true, "slices": true, "cmp": true, "unicode/utf16": true,
	"encoding/hex": true, "io/fs": true, "context": true, "math/rand": false, "hash/crc32": true,
	"internal/oserror": true, "internal/bytealg": false, "encoding/json": false, "fmt": false, "time": false, "sync": false,
	"bufio": true, "hash/crc64": true, "internal/itoa": true, "internal/stringslite": true, "iter": true, "maps": true,
}

func (e *Engine) initAllowed(pkg *ssa.Package) bool {
	path := pkg.Pkg.Path()
	if isStdlib(path) {
		return sharedInitPkgs[path]
	}
	for _, deny := range []string{"golang.org/x/", "github.com/google/go-cmp", "github.com/stretchr/", "github.com/davecgh/", "github.com/pmezard/", "gopkg.in/", "pgregory.net/"} {
		if strings.HasPrefix(path, deny) {
			return false
		}
	}
	return true
}

func (e *Engine) isShared(pkg *ssa.Package) bool {
	path := pkg.Pkg.Path()
	return isStdlib(path) && sharedInitPkgs[path]
}

// ---- harness execution ----

type HarnessResult struct {
	Name        string
	Paths       int
	Outcomes    map[string]int
	Decisions   int
	Forks       int
	Violations  []Violation
	Unknowns    []string
	Problems    []string // unwind / unsupported / engine errors (make the result inconclusive)
	Covers      map[string]bool
	Asserts     map[string]int
	Queries     int
	Obligations int
	SolverTime  time.Duration
	Wall        time.Duration
	Steps       int
	Funcs       map[string]int
	Stubs       []string
	Models      [][]InputVal // one per completed path when ModelPerPath
	ModelEvents [][]string
	ModelObs    [][]Observed
	Truncated   bool
}

type hrun struct {
	fn          *ssa.Function
	hr          *HarnessResult
	outstanding int // queued + active items
	t0          time.Time
	deadline    time.Time
	started     bool
	stopped     bool
	problemSeen map[string]bool
	done        chan struct{}
	items       [][]Decision  // LIFO stack of unexplored prefixes
	used        time.Duration // worker time consumed by this harness's paths (the wall budget is Wall x Workers of it)
}

type job struct {
	h      *hrun
	prefix []Decision
}

type workQueue struct {
	mu      sync.Mutex
	cond    *sync.Cond
	active  []*hrun // started, unfinished harnesses in start order
	waiting []*hrun // harnesses not yet started
	running int     // harnesses started and not finished
	maxRun  int
	closed  bool
}

// RunHarness explores all paths of the function fn (no arguments).
func (e *Engine) RunHarness(fn *ssa.Function) *HarnessResult {
	return e.RunHarnesses([]*ssa.Function{fn}, nil)[0]
}

// RunHarnesses explores several harnesses with one shared pool of workers (each owning one solver process).
// onDone (optional) is called as each harness completes.
func (e *Engine) RunHarnesses(fns []*ssa.Function, onDone func(*HarnessResult)) []*HarnessResult {
	q := &workQueue{maxRun: e.cfg.Workers}
	q.cond = sync.NewCond(&q.mu)
	var runs []*hrun
	for _, fn := range fns {
		h := &hrun{fn: fn, hr: &HarnessResult{Name: fn.Name(), Outcomes: map[string]int{}, Funcs: map[string]int{}}, problemSeen: map[string]bool{}, done: make(chan struct{})}
		runs = append(runs, h)
		q.waiting = append(q.waiting, h)
	}
	var wg sync.WaitGroup
	finish := func(h *hrun) { // q.mu held
		h.hr.Wall = time.Since(h.t0)
		q.running--
		for i, x := range q.active {
			if x == h {
				q.active = append(q.active[:i:i], q.active[i+1:]...)
				break
			}
		}
		e.mu.Lock()
		h.hr.Covers = e.covers[h.fn.Name()]
		h.hr.Asserts = e.asserts[h.fn.Name()]
		h.hr.Obligations = e.obligs[h.fn.Name()]
		for s := range e.stubsUsed[h.fn.Name()] {
			h.hr.Stubs = append(h.hr.Stubs, s)
		}
		sort.Strings(h.hr.Stubs)
		e.mu.Unlock()
		close(h.done)
		q.cond.Broadcast()
	}
	pop := func() (job, bool) {
		q.mu.Lock()
		defer q.mu.Unlock()
		for {
			// newest harness first: small harnesses started while a big one is running finish quickly
			for i := len(q.active) - 1; i >= 0; i-- {
				h := q.active[i]
				if n := len(h.items); n > 0 {
					it := h.items[n-1]
					h.items = h.items[:n-1]
					return job{h, it}, true
				}
			}
			if len(q.waiting) > 0 && q.running < q.maxRun {
				h := q.waiting[0]
				q.waiting = q.waiting[1:]
				h.started, h.t0 = true, time.Now()
				h.outstanding = 1
				q.running++
				q.active = append(q.active, h)
				return job{h, nil}, true
			}
			if len(q.waiting) == 0 && q.running == 0 {
				q.cond.Broadcast()
				return job{}, false
			}
			q.cond.Wait()
		}
	}
	for w := 0; w < e.cfg.Workers; w++ {
		wg.Add(1)
		go func() {
			defer wg.Done()
			var sol *Solver
			defer func() {
				if sol != nil {
					sol.Close()
				}
			}()
			for {
				jb, ok := pop()
				if !ok {
					return
				}
				h := jb.h
				if sol == nil {
					var err error
					sol, err = NewSolver(e.cfg.SolverKind, e.cfg.FeasMs)
					if err != nil {
						q.mu.Lock()
						h.hr.Problems = append(h.hr.Problems, "solver start: "+err.Error())
						h.outstanding--
						if h.outstanding == 0 {
							finish(h)
						}
						q.mu.Unlock()
						sol = nil
						continue
					}
				}
				q.mu.Lock()
				skip := h.stopped
				q.mu.Unlock()
				var res *PathResult
				var pending [][]Decision
				var funcs map[*ssa.Function]int
				tPath := time.Now()
				if !skip {
					var dl time.Time
					if e.cfg.Wall > 0 {
						dl = tPath.Add(e.cfg.Wall)
					}
					res, pending, funcs = e.runPath(h.fn, jb.prefix, sol, dl, h)
					if sol.Errors > 0 && sol.broken {
						sol.Close()
						sol = nil
					}
				}
				q.mu.Lock()
				hr := h.hr
				if skip {
					hr.Truncated = true
					h.problem("exploration truncated (path/wall budget): unexplored prefixes remain")
				} else {
					if !h.stopped {
						for _, alt := range pending {
							h.items = append(h.items, alt)
							h.outstanding++
						}
						if len(pending) > 0 {
							q.cond.Broadcast()
						}
					} else if len(pending) > 0 {
						hr.Truncated = true
						h.problem("exploration truncated (path/wall budget): unexplored prefixes remain")
					}
					hr.Paths++
					hr.Outcomes[res.Outcome]++
					hr.Decisions += res.Decisions
					hr.Forks += res.Forks
					hr.Steps += res.Steps
					hr.Queries += res.Queries
					hr.SolverTime += res.SolverTime
					hr.Violations = append(hr.Violations, res.Violations...)
					hr.Unknowns = append(hr.Unknowns, res.Unknowns...)
					for f, n := range funcs {
						hr.Funcs[f.String()] = n
					}
					switch res.Outcome {
					case "unwind", "unsupported", "engine-error":
						h.problem(res.Outcome + ": " + res.Msg)
					}
					if res.Model != nil && len(hr.Models) < 4096 {
						hr.Models = append(hr.Models, res.Model)
						hr.ModelEvents = append(hr.ModelEvents, res.Events)
						hr.ModelObs = append(hr.ModelObs, res.Observed)
					}
					h.used += time.Since(tPath)
					if hr.Paths >= e.cfg.MaxPaths || (e.cfg.StopOnViol && len(hr.Violations) > 0) ||
						(e.cfg.Wall > 0 && h.used > e.cfg.Wall*time.Duration(e.cfg.Workers)) {
						h.stopped = true
					}
				}
				h.outstanding--
				if h.outstanding == 0 {
					finish(h)
					q.mu.Unlock()
					if onDone != nil {
						onDone(hr)
					}
				} else {
					q.mu.Unlock()
				}
			}
		}()
	}
	wg.Wait()
	var out []*HarnessResult
	for _, h := range runs {
		out = append(out, h.hr)
	}
	return out
}

func (h *hrun) problem(key string) {
	if !h.problemSeen[key] {
		h.problemSeen[key] = true
		if len(h.hr.Problems) < 50 {
			h.hr.Problems = append(h.hr.Problems, key)
		}
	}
}

func (e *Engine) newPath(sol *Solver) *Path {
	p := &Path{eng: e, st: NewStore(), sol: sol,
		globals: map[*ssa.Global]*Value{}, initDone: map[*ssa.Package]bool{},
		funcs: map[*ssa.Function]int{}, res: &PathResult{}, observes: map[string]Value{}}
	p.emptyStr = mkStr("")
	return p
}

func (e *Engine) runPath(fn *ssa.Function, prefix []Decision, sol *Solver, deadline time.Time, h *hrun) (res *PathResult, pending [][]Decision, funcs map[*ssa.Function]int) {
	p := e.newPath(sol)
	p.prefix = prefix
	p.harness = fn.Name()
	p.deadline = deadline
	q0, t0 := sol.Queries, sol.Time
	sol.Push()
	defer func() {
		p.killGoroutines()
		sol.Pop()
		p.res.Queries = sol.Queries - q0
		p.res.SolverTime = sol.Time - t0
		p.res.Steps = p.steps
		res, pending, funcs = p.res, p.pending, p.funcs
	}()
	func() {
		defer func() {
			if r := recover(); r != nil {
				switch r := r.(type) {
				case pathEnd:
					p.res.Outcome = r.kind
					p.res.Msg = r.msg
					if r.kind == "quiescent" {
						p.runQuiescenceChecks()
					}
				case targetPanic:
					p.reportPanic(r)
				default:
					p.res.Outcome = "engine-error"
					p.res.Msg = fmt.Sprintf("%v\n%s", r, stackTrace())
				}
			}
		}()
		p.call(nil, token.NoPos, fn, nil)
		p.finishSched()
		p.res.Outcome = "return"
		if e.cfg.ModelPerPath && len(p.res.Violations) == 0 && e.wantModel(fn.Name()) {
			iv, m := p.smallModel(nil)
			if iv != nil {
				trunc := false
				for _, x := range iv {
					trunc = trunc || x.Truncated
				}
				if !trunc {
					p.res.Model = iv
					p.evalObserved(m)
				}
			}
		}
	}()
	return
}

func (e *Engine) lookupIntrinsic(fn *ssa.Function) intrinsic {
	if fn.Pkg == nil && fn.Origin() == nil && fn.Parent() == nil && fn.Synthetic == "" {
		// methods of instantiated types etc. fall through to name lookup
	}
	name := fn.String()
	if intr, ok := e.intrinsics[name]; ok {
		return intr
	}
	for _, sname := range e.cfg.StubFuncs {
		if sname == name {
			return func(p *Path, fr *frame, pos token.Pos, args []Value) Value {
				p.eng.noteStub(p.harness, "stubbed (empty body, zero results): "+name)
				res := fn.Signature.Results()
				switch res.Len() {
				case 0:
					return nil
				case 1:
					return p.zero(res.At(0).Type())
				}
				t := make(Tuple, res.Len())
				for i := range t {
					t[i] = p.zero(res.At(i).Type())
				}
				return t
			}
		}
	}
	if strings.HasPrefix(fn.Name(), "verif") && fn.Pkg != nil && fn.Signature.Recv() == nil {
		if intr, ok := e.intrinsics["@"+fn.Name()]; ok {
			return intr
		}
	}
	return nil
}

// sharedInit runs the initialiser of a pure stdlib package once; its globals are shared read-only by all paths.
func (e *Engine) sharedInit(pkg *ssa.Package) {
	e.sharedMu.Lock()
	defer e.sharedMu.Unlock()
	if e.sharedDone[pkg] {
		return
	}
	ip := e.newPath(nil)
	ip.isInitPath = true
	ip.ensureInit(pkg)
}


// runQuiescenceChecks runs the closures registered with verifOnQuiescent after every goroutine has blocked.
func (p *Path) runQuiescenceChecks() {
	if p.sched == nil || len(p.sched.onQuiet) == 0 {
		return
	}
	fs := p.sched.onQuiet
	p.sched.onQuiet = nil
	defer func() {
		if r := recover(); r != nil {
			switch r := r.(type) {
			case pathEnd:
				p.res.Outcome, p.res.Msg = r.kind, r.msg
			case targetPanic:
				p.reportPanic(r)
			default:
				p.res.Outcome = "engine-error"
				p.res.Msg = fmt.Sprintf("%v\n%s", r, stackTrace())
			}
		}
	}()
	p.depth, p.top = 0, nil
	p.sched.cur = p.sched.gs[0]
	for _, f := range fs {
		p.call(nil, token.NoPos, f, nil)
	}
}
