package gose

import (
	"fmt"
	"go/constant"
	"go/token"
	"go/types"
	"math"
	"runtime/debug"

	"golang.org/x/tools/go/ssa"
)

func stackTrace() string { return string(debug.Stack()) }

func (p *Path) curPos(fr *frame) string {
	if fr == nil || fr.cur == nil {
		return "?"
	}
	pos := fr.cur.Pos()
	if pos == token.NoPos {
		// find nearest instruction with a position
		for _, in := range fr.block.Instrs {
			if in.Pos() != token.NoPos {
				pos = in.Pos()
				break
			}
		}
	}
	return p.pos(pos)
}

func (fr *frame) depthAtEntry() int { return fr.entryDepth }

func (p *Path) constValue(c *ssa.Const) Value {
	if c.Value == nil {
		return p.zero(c.Type())
	}
	t := c.Type()
	if tp, ok := t.(*types.TypeParam); ok {
		_ = tp
		panic("const of type parameter")
	}
	if b, ok := t.Underlying().(*types.Basic); ok {
		if b.Info()&types.IsString != 0 {
			if c.Value.Kind() == constant.String {
				return mkStr(constant.StringVal(c.Value))
			}
			// string(rune) constant
			return mkStr(string(rune(c.Int64())))
		}
		w, _, isFloat, ok := basicInfo(b)
		if !ok {
			p.unsupported("constant of type %v", t)
		}
		if w == 0 {
			return p.st.Bool(constant.BoolVal(c.Value))
		}
		if isFloat {
			f := c.Float64()
			if w == 32 {
				return p.st.BV(32, uint64(math.Float32bits(float32(f))))
			}
			return p.st.BV(64, math.Float64bits(f))
		}
		if v, exact := constant.Uint64Val(constant.ToInt(c.Value)); exact {
			return p.st.BV(w, v)
		}
		return p.st.BV(w, uint64(c.Int64()))
	}
	p.unsupported("constant %v of type %v", c, t)
	return nil
}

// ---- load / store ----

func (p *Path) load(fr *frame, pos token.Pos, addr Value) Value {
	switch a := addr.(type) {
	case *Value:
		if a == nil {
			p.runtimePanic(fr, pos, "invalid memory address or nil pointer dereference")
		}
		return copyVal(*a)
	case SymPtr:
		return p.st.Select(a.Arr, a.Idx)
	case IdxPtr:
		r := a.Base[len(a.Base)-1].(*Term)
		for i := len(a.Base) - 2; i >= 0; i-- {
			r = p.st.Ite(p.st.Eq(a.Idx, p.st.BV(64, uint64(i))), a.Base[i].(*Term), r)
		}
		return r
	}
	p.unsupported("load through %T at %s", addr, p.pos(pos))
	return nil
}

func (p *Path) store(fr *frame, pos token.Pos, addr Value, v Value) {
	switch a := addr.(type) {
	case *Value:
		if a == nil {
			p.runtimePanic(fr, pos, "invalid memory address or nil pointer dereference")
		}
		assignInPlace(a, v)
		return
	case SymPtr:
		p.unsupported("store into read-only symbolic input array at %s", p.pos(pos))
	case IdxPtr:
		nv := v.(*Term)
		for i := range a.Base {
			a.Base[i] = p.st.Ite(p.st.Eq(a.Idx, p.st.BV(64, uint64(i))), nv, a.Base[i].(*Term))
		}
		return
	}
	p.unsupported("store through %T at %s", addr, p.pos(pos))
}

func (p *Path) unop(fr *frame, instr *ssa.UnOp, x Value) Value {
	switch instr.Op {
	case token.MUL:
		return p.load(fr, instr.Pos(), x)
	case token.ARROW:
		return p.chanRecv(fr, x.(*Chan), instr.CommaOk, instr.Type())
	case token.SUB:
		t := x.(*Term)
		if _, _, isFloat, _ := basicInfo(instr.X.Type()); isFloat {
			return p.st.FpNeg(t)
		}
		return p.st.Neg(t)
	case token.NOT:
		return p.st.Not(x.(*Term))
	case token.XOR:
		return p.st.BNot(x.(*Term))
	}
	p.unsupported("unop %s", instr.Op)
	return nil
}

// ---- binop ----

func (p *Path) binop(fr *frame, pos token.Pos, op token.Token, t types.Type, x, y Value) Value {
	st := p.st
	switch op {
	case token.EQL:
		return p.equals(t, x, y)
	case token.NEQ:
		return st.Not(p.equals(t, x, y))
	}
	if xs, ok := x.(*Str); ok {
		ys := y.(*Str)
		switch op {
		case token.ADD:
			return p.strConcat(xs, ys)
		case token.LSS:
			return p.strLess(xs, ys)
		case token.GTR:
			return p.strLess(ys, xs)
		case token.LEQ:
			return st.Not(p.strLess(ys, xs))
		case token.GEQ:
			return st.Not(p.strLess(xs, ys))
		}
		p.unsupported("string binop %s", op)
	}
	a, ok1 := x.(*Term)
	b, ok2 := y.(*Term)
	if !ok1 || !ok2 {
		p.unsupported("binop %s on %T, %T at %s", op, x, y, p.pos(pos))
	}
	w, signed, isFloat, ok := basicInfo(t)
	if !ok {
		p.unsupported("binop %s on type %v", op, t)
	}
	if w == 0 {
		switch op {
		case token.LAND, token.AND:
			return st.And(a, b)
		case token.LOR, token.OR:
			return st.Or(a, b)
		}
		p.unsupported("bool binop %s", op)
	}
	if isFloat {
		switch op {
		case token.ADD:
			return st.FpArith(OpFpAdd, a, b)
		case token.SUB:
			return st.FpArith(OpFpSub, a, b)
		case token.MUL:
			return st.FpArith(OpFpMul, a, b)
		case token.QUO:
			return st.FpArith(OpFpDiv, a, b)
		case token.LSS:
			return st.FpCmp(OpFpLt, a, b)
		case token.LEQ:
			return st.FpCmp(OpFpLe, a, b)
		case token.GTR:
			return st.FpCmp(OpFpLt, b, a)
		case token.GEQ:
			return st.FpCmp(OpFpLe, b, a)
		}
		p.unsupported("float binop %s", op)
	}
	switch op {
	case token.ADD:
		return st.Bin(OpAdd, a, b)
	case token.SUB:
		return st.Bin(OpSub, a, b)
	case token.MUL:
		return st.Bin(OpMul, a, b)
	case token.QUO, token.REM:
		if p.decide(st.Eq(b, st.BV(w, 0))) {
			p.runtimePanic(fr, pos, "integer divide by zero")
		}
		switch {
		case op == token.QUO && signed:
			return st.Bin(OpSDiv, a, b)
		case op == token.QUO:
			return st.Bin(OpUDiv, a, b)
		case signed:
			return st.Bin(OpSRem, a, b)
		default:
			return st.Bin(OpURem, a, b)
		}
	case token.AND:
		return st.Bin(OpBAnd, a, b)
	case token.OR:
		return st.Bin(OpBOr, a, b)
	case token.XOR:
		return st.Bin(OpBXor, a, b)
	case token.AND_NOT:
		return st.Bin(OpBAnd, a, st.BNot(b))
	case token.SHL, token.SHR:
		// y's own width/signedness is not t; a negative signed count panics
		return p.shift(fr, pos, op, w, signed, a, b)
	case token.LSS:
		if signed {
			return st.Cmp(OpSlt, a, b)
		}
		return st.Cmp(OpUlt, a, b)
	case token.LEQ:
		if signed {
			return st.Cmp(OpSle, a, b)
		}
		return st.Cmp(OpUle, a, b)
	case token.GTR:
		if signed {
			return st.Cmp(OpSlt, b, a)
		}
		return st.Cmp(OpUlt, b, a)
	case token.GEQ:
		if signed {
			return st.Cmp(OpSle, b, a)
		}
		return st.Cmp(OpUle, b, a)
	}
	p.unsupported("binop %s", op)
	return nil
}

func (p *Path) shift(fr *frame, pos token.Pos, op token.Token, w int, signed bool, a, b *Term) Value {
	st := p.st
	// the SSA builder converts the count to an unsigned type or leaves a signed one; a signed negative count panics.
	// We cannot see b's static type here, so use fr.cur.
	ySigned := false
	if bo, ok := fr.cur.(*ssa.BinOp); ok {
		_, ys, _, _ := basicInfo(bo.Y.Type())
		ySigned = ys
	}
	if ySigned {
		if p.decide(st.Cmp(OpSlt, b, st.BV(b.W, 0))) {
			p.runtimePanic(fr, pos, "negative shift amount")
		}
	}
	var big *Term // count >= w
	var cnt *Term
	if b.W > w {
		big = st.Cmp(OpUle, st.BV(b.W, uint64(w)), b)
		cnt = st.Extract(b, w-1, 0)
	} else {
		cnt = st.ZExt(b, w)
		big = st.Cmp(OpUle, st.BV(w, uint64(w)), cnt)
	}
	switch {
	case op == token.SHL:
		return st.Ite(big, st.BV(w, 0), st.Bin(OpShl, a, cnt))
	case signed:
		return st.Ite(big, st.Bin(OpAShr, a, st.BV(w, uint64(w-1))), st.Bin(OpAShr, a, cnt))
	default:
		return st.Ite(big, st.BV(w, 0), st.Bin(OpLShr, a, cnt))
	}
}

// ---- equality ----

func (p *Path) equals(t types.Type, x, y Value) *Term {
	st := p.st
	switch x := x.(type) {
	case *Term:
		yt := y.(*Term)
		if _, _, isFloat, ok := basicInfo(t); ok && isFloat {
			return st.FpCmp(OpFpEq, x, yt)
		}
		return st.Eq(x, yt)
	case *Str:
		return p.strEq(x, y.(*Str))
	case *Value:
		yp, ok := y.(*Value)
		if !ok {
			return st.False
		}
		return st.Bool(x == yp)
	case SymPtr:
		yp, ok := y.(SymPtr)
		if !ok {
			return st.False
		}
		return st.And(st.Bool(x.Arr == yp.Arr), st.Eq(x.Idx, yp.Idx))
	case Iface:
		yi := y.(Iface)
		if x.T == nil || yi.T == nil {
			return st.Bool(x.T == nil && yi.T == nil)
		}
		if !types.Identical(x.T, yi.T) {
			return st.False
		}
		if !types.Comparable(x.T) {
			panic(targetPanic{Iface{T: p.eng.runtimeErrorType(), V: mkStr("runtime error: comparing uncomparable type " + x.T.String())}, "=="})
		}
		return p.equals(x.T, x.V, yi.V)
	case Struct:
		ys := y.(Struct)
		stt := t.Underlying().(*types.Struct)
		r := st.True
		for i := range x {
			if stt.Field(i).Name() == "_" {
				continue
			}
			r = st.And(r, p.equals(stt.Field(i).Type(), x[i], ys[i]))
		}
		return r
	case Array:
		ya := y.(Array)
		et := t.Underlying().(*types.Array).Elem()
		r := st.True
		for i := range x {
			r = st.And(r, p.equals(et, x[i], ya[i]))
		}
		return r
	case *Map:
		ym, _ := y.(*Map)
		return st.Bool(x == ym)
	case *Chan:
		yc, _ := y.(*Chan)
		return st.Bool(x == yc)
	case []Value:
		// only comparison with nil is legal
		if ys, ok := y.([]Value); ok {
			return st.Bool(x == nil && ys == nil)
		}
		if _, ok := y.(*SymSlice); ok {
			return st.Bool(false)
		}
	case *SymSlice:
		return st.False // never nil
	case *ssa.Function, *Closure, *ssa.Builtin, *nativeFunc:
		return st.Bool(isNilFunc(x) && isNilFunc(y))
	case UnsafePtr:
		yu := y.(UnsafePtr)
		if x.V == nil || yu.V == nil {
			return st.Bool(x.V == nil && yu.V == nil)
		}
		if xp, ok := x.V.(*Value); ok {
			if yp, ok := yu.V.(*Value); ok {
				return st.Bool(xp == yp)
			}
		}
	case nil:
		return st.Bool(y == nil)
	}
	p.unsupported("comparison of %T and %T (type %v)", x, y, t)
	return nil
}

// ---- conversions ----

func (p *Path) conv(fr *frame, pos token.Pos, tdst, tsrc types.Type, x Value) Value {
	st := p.st
	ud, us := tdst.Underlying(), tsrc.Underlying()
	switch ud := ud.(type) {
	case *types.Pointer:
		// unsafe.Pointer -> *T
		if up, ok := x.(UnsafePtr); ok {
			if up.V == nil {
				return (*Value)(nil)
			}
			if up.T != nil && types.Identical(up.T.Underlying(), ud) {
				return up.V
			}
			p.unsupported("unsafe pointer conversion %v -> %v at %s", up.T, tdst, p.pos(pos))
		}
		return x
	case *types.Slice:
		switch x := x.(type) {
		case *Str:
			eb, _ := ud.Elem().Underlying().(*types.Basic)
			if eb != nil && eb.Kind() == types.Int32 {
				return p.strToRunes(fr, x)
			}
			bs := p.strBytes(x)
			out := make([]Value, len(bs))
			for i, b := range bs {
				out[i] = b
			}
			return out
		}
		return x
	case *types.Basic:
		if ud.Kind() == types.UnsafePointer {
			if _, ok := x.(UnsafePtr); ok {
				return x
			}
			if t, ok := x.(*Term); ok { // uintptr -> unsafe.Pointer
				if t.Op == OpConst && t.C == 0 {
					return UnsafePtr{}
				}
				p.unsupported("uintptr -> unsafe.Pointer at %s", p.pos(pos))
			}
			if xp, ok := x.(*Value); ok && xp == nil {
				return UnsafePtr{}
			}
			return UnsafePtr{V: x, T: tsrc}
		}
		if ud.Info()&types.IsString != 0 {
			switch x := x.(type) {
			case *Str:
				return x
			case []Value:
				return p.bytesToStr(fr, x, us)
			case *SymSlice:
				return &Str{Arr: x.Arr, Off: x.Off, Len: x.Len, Max: x.Max}
			case *Term:
				// integer -> string (rune)
				if x.Op == OpConst {
					_, sgn, _, _ := basicInfo(tsrc)
					v := int64(x.C)
					if sgn {
						v = sext64(x.C, x.W)
					}
					if v < 0 || v > 0x10ffff {
						return mkStr("�")
					}
					return mkStr(string(rune(v)))
				}
				return p.runeToStr(x, tsrc)
			}
		}
		t, ok := x.(*Term)
		if !ok {
			if up, ok := x.(UnsafePtr); ok && ud.Kind() == types.Uintptr {
				if up.V == nil {
					return st.BV(64, 0)
				}
				p.unsupported("unsafe.Pointer -> uintptr at %s", p.pos(pos))
			}
			p.unsupported("conversion %v -> %v of %T at %s", tsrc, tdst, x, p.pos(pos))
		}
		dw, dsigned, dfloat, _ := basicInfo(ud)
		sw, ssigned, sfloat, ok2 := basicInfo(us)
		if !ok2 {
			p.unsupported("conversion from %v", tsrc)
		}
		_ = sw
		switch {
		case dw == 0:
			return t
		case sfloat && dfloat:
			return st.FpCvt(t, dw)
		case sfloat:
			return st.FpToInt(t, dw, dsigned)
		case dfloat:
			return st.IntToFp(t, dw, ssigned)
		case ssigned:
			return st.SExt(t, dw)
		default:
			return st.ZExt(t, dw)
		}
	}
	return x
}

func (p *Path) sliceToArrayPointer(fr *frame, instr *ssa.SliceToArrayPointer, x Value) Value {
	n := int(mustDeref(instr.Type()).Underlying().(*types.Array).Len())
	switch x := x.(type) {
	case []Value:
		if len(x) < n {
			p.runtimePanic(fr, instr.Pos(), fmt.Sprintf("cannot convert slice with length %d to array or pointer to array with length %d", len(x), n))
		}
		if x == nil {
			return (*Value)(nil)
		}
		var v Value = Array(x[:n:n])
		return &v
	case *SymSlice:
		if p.decide(p.st.Cmp(OpUlt, x.Len, p.st.BV(64, uint64(n)))) {
			p.runtimePanic(fr, instr.Pos(), "cannot convert slice to array pointer: too short")
		}
		a := make(Array, n)
		for i := range a {
			a[i] = p.st.Select(x.Arr, p.st.Add(x.Off, p.st.BV(64, uint64(i))))
		}
		var v Value = a
		return &v
	}
	p.unsupported("SliceToArrayPointer on %T", x)
	return nil
}

// ---- type assertions ----

func (p *Path) typeAssert(fr *frame, instr *ssa.TypeAssert, itf Iface) Value {
	var v Value
	err := ""
	if itf.T == nil {
		err = fmt.Sprintf("interface conversion: interface is nil, not %s", instr.AssertedType)
	} else if idst, ok := instr.AssertedType.Underlying().(*types.Interface); ok {
		if meth, _ := types.MissingMethod(itf.T, idst, true); meth != nil {
			err = fmt.Sprintf("interface conversion: %v is not %v: missing method %s", itf.T, idst, meth.Name())
		} else {
			v = itf
		}
	} else if types.Identical(itf.T, instr.AssertedType) {
		v = itf.V
	} else {
		err = fmt.Sprintf("interface conversion: interface is %s, not %s", itf.T, instr.AssertedType)
	}
	if err != "" {
		if !instr.CommaOk {
			p.runtimePanic(fr, instr.Pos(), err)
		}
		return Tuple{p.zero(instr.AssertedType), p.st.False}
	}
	if instr.CommaOk {
		return Tuple{v, p.st.True}
	}
	return v
}

// ---- indexing ----

func (p *Path) checkIndex(fr *frame, pos token.Pos, idx *Term, n *Term) {
	// 0 <= idx < n, with idx interpreted as signed of its width, n as non-negative 64-bit
	i64 := idx
	if idx.W < 64 {
		// static type signedness is not known here; indices in Go are ints or unsigned; widen by zero-extension for
		// widths < 64 only when the value is produced as unsigned. We use sign extension only for 64-bit (no-op).
		i64 = p.st.ZExt(idx, 64)
		if bi, ok := fr.cur.(interface{ Operands([]*ssa.Value) []*ssa.Value }); ok {
			_ = bi
		}
	}
	oob := p.st.Not(p.st.Cmp(OpUlt, i64, n)) // unsigned compare also catches negatives
	if p.decide(oob) {
		p.runtimePanic(fr, pos, "index out of range")
	}
}

func (p *Path) idx64(idx *Term, t types.Type) *Term {
	if idx.W == 64 {
		return idx
	}
	_, signed, _, _ := basicInfo(t)
	if signed {
		return p.st.SExt(idx, 64)
	}
	return p.st.ZExt(idx, 64)
}

func (p *Path) indexAddr(fr *frame, instr *ssa.IndexAddr, x Value, idx *Term) Value {
	idx = p.idx64(idx, instr.Index.Type())
	switch x := x.(type) {
	case []Value:
		p.checkIndex(fr, instr.Pos(), idx, p.st.BV(64, uint64(len(x))))
		if idx.Op != OpConst && scalarElems(x) {
			return IdxPtr{x, idx}
		}
		i := p.concretize(idx, len(x)-1, "slice index")
		return &x[i]
	case *Value:
		if x == nil {
			p.runtimePanic(fr, instr.Pos(), "invalid memory address or nil pointer dereference")
		}
		a := (*x).(Array)
		p.checkIndex(fr, instr.Pos(), idx, p.st.BV(64, uint64(len(a))))
		if idx.Op != OpConst && scalarElems(a) {
			return IdxPtr{[]Value(a), idx}
		}
		i := p.concretize(idx, len(a)-1, "array index")
		return &a[i]
	case *SymSlice:
		p.checkIndex(fr, instr.Pos(), idx, x.Len)
		return SymPtr{x.Arr, p.st.Add(x.Off, idx)}
	}
	p.unsupported("IndexAddr on %T", x)
	return nil
}

func (p *Path) index(fr *frame, instr *ssa.Index, x Value, idx *Term) Value {
	idx = p.idx64(idx, instr.Index.Type())
	switch x := x.(type) {
	case Array:
		p.checkIndex(fr, instr.Pos(), idx, p.st.BV(64, uint64(len(x))))
		if idx.Op == OpConst {
			return copyVal(x[idx.C])
		}
		// symbolic index into array of scalars: ite chain
		if len(x) > 0 {
			if _, ok := x[0].(*Term); ok {
				r := x[len(x)-1].(*Term)
				for i := len(x) - 2; i >= 0; i-- {
					r = p.st.Ite(p.st.Eq(idx, p.st.BV(64, uint64(i))), x[i].(*Term), r)
				}
				return r
			}
		}
		i := p.concretize(idx, len(x)-1, "array index")
		return copyVal(x[i])
	case *Str:
		return p.strIndex(fr, instr.Pos(), x, idx)
	}
	p.unsupported("Index on %T", x)
	return nil
}

// assignInPlace stores v into the cell. Aggregates are assigned element-wise INTO the existing storage, so that addresses
// of fields/elements taken earlier (&x.f, &a[i]) stay valid after a whole-value assignment, exactly as in Go.
func assignInPlace(dst *Value, v Value) {
	switch nv := v.(type) {
	case Struct:
		if old, ok := (*dst).(Struct); ok && len(old) == len(nv) {
			for i := range nv {
				assignInPlace(&old[i], nv[i])
			}
			return
		}
	case Array:
		if old, ok := (*dst).(Array); ok && len(old) == len(nv) {
			for i := range nv {
				assignInPlace(&old[i], nv[i])
			}
			return
		}
	}
	*dst = copyVal(v)
}

// scalarElems: non-empty and every element is a scalar term of one width (symbolic indexing without a case split)
func scalarElems(x []Value) bool {
	if len(x) == 0 || len(x) > 4096 {
		return false
	}
	w := -1
	for _, e := range x {
		t, ok := e.(*Term)
		if !ok {
			return false
		}
		if w < 0 {
			w = t.W
		} else if t.W != w {
			return false
		}
	}
	return true
}

// ---- slices ----

func (p *Path) sliceLen(v Value) *Term {
	switch v := v.(type) {
	case []Value:
		return p.st.BV(64, uint64(len(v)))
	case *SymSlice:
		return v.Len
	case *Str:
		return p.strLen(v)
	case Array:
		return p.st.BV(64, uint64(len(v)))
	case *Value:
		if v == nil {
			return p.st.BV(64, 0)
		}
		return p.st.BV(64, uint64(len((*v).(Array))))
	case *Map:
		if v == nil {
			return p.st.BV(64, 0)
		}
		n := 0
		for _, e := range v.Entries {
			if !e.dead {
				n++
			}
		}
		return p.st.BV(64, uint64(n))
	case *Chan:
		if v == nil {
			return p.st.BV(64, 0)
		}
		return p.st.BV(64, uint64(len(v.buf)))
	}
	p.unsupported("len of %T", v)
	return nil
}

func (p *Path) sliceCap(v Value) *Term {
	switch v := v.(type) {
	case []Value:
		return p.st.BV(64, uint64(cap(v)))
	case *SymSlice:
		return v.Cap
	case Array:
		return p.st.BV(64, uint64(len(v)))
	case *Value:
		if v == nil {
			return p.st.BV(64, 0)
		}
		return p.st.BV(64, uint64(len((*v).(Array))))
	case *Chan:
		if v == nil {
			return p.st.BV(64, 0)
		}
		return p.st.BV(64, uint64(v.cap))
	}
	p.unsupported("cap of %T", v)
	return nil
}

func (p *Path) slice(fr *frame, instr *ssa.Slice, x, lo, hi, max Value) Value {
	st := p.st
	get := func(v Value, op ssa.Value) *Term {
		if v == nil {
			return nil
		}
		return p.idx64(v.(*Term), op.Type())
	}
	l, h, m := get(lo, instr.Low), get(hi, instr.High), get(max, instr.Max)
	if l == nil {
		l = st.BV(64, 0)
	}
	switch x := x.(type) {
	case *Str:
		n := p.strLen(x)
		if h == nil {
			h = n
		}
		bad := st.Or(st.Not(st.Cmp(OpUle, l, h)), st.Not(st.Cmp(OpUle, h, n)))
		if p.decide(bad) {
			p.runtimePanic(fr, instr.Pos(), "slice bounds out of range")
		}
		return p.strSlice(x, l, h)
	case *SymSlice:
		if h == nil {
			h = x.Len
		}
		if m == nil {
			m = x.Cap
		}
		bad := st.Or(st.Or(st.Not(st.Cmp(OpUle, l, h)), st.Not(st.Cmp(OpUle, h, m))), st.Not(st.Cmp(OpUle, m, x.Cap)))
		if p.decide(bad) {
			p.runtimePanic(fr, instr.Pos(), "slice bounds out of range")
		}
		return &SymSlice{Arr: x.Arr, Off: st.Add(x.Off, l), Len: st.Sub(h, l), Cap: st.Sub(m, l), Max: x.Max}
	}
	var a []Value
	switch x := x.(type) {
	case []Value:
		a = x
	case *Value:
		if x == nil {
			p.runtimePanic(fr, instr.Pos(), "invalid memory address or nil pointer dereference")
		}
		a = []Value((*x).(Array))
	default:
		p.unsupported("slice of %T", x)
	}
	if h == nil {
		h = st.BV(64, uint64(len(a)))
	}
	if m == nil {
		m = st.BV(64, uint64(cap(a)))
	}
	bad := st.Or(st.Or(st.Not(st.Cmp(OpUle, l, h)), st.Not(st.Cmp(OpUle, h, m))), st.Not(st.Cmp(OpUle, m, st.BV(64, uint64(cap(a))))))
	if p.decide(bad) {
		p.runtimePanic(fr, instr.Pos(), "slice bounds out of range")
	}
	li := p.concretize(l, cap(a), "slice low")
	hi2 := p.concretize(h, cap(a), "slice high")
	mi := p.concretize(m, cap(a), "slice max")
	if a == nil {
		return []Value(nil)
	}
	return a[li:hi2:mi]
}

func (p *Path) maxAlloc() int {
	if v, ok := p.eng.cfg.Params["maxalloc"]; ok {
		return v
	}
	return 64
}

func (p *Path) makeSlice(fr *frame, instr *ssa.MakeSlice) Value {
	st := p.st
	ln := p.idx64(fr.get(instr.Len).(*Term), instr.Len.Type())
	cp := p.idx64(fr.get(instr.Cap).(*Term), instr.Cap.Type())
	if p.decide(st.Or(st.Cmp(OpSlt, ln, st.BV(64, 0)), st.Cmp(OpSlt, cp, ln))) {
		p.runtimePanic(fr, instr.Pos(), "makeslice: len out of range")
	}
	p.noteAlloc(fr, instr.Pos(), cp)
	c := p.concretize(cp, p.maxAlloc(), "make cap")
	l := p.concretize(ln, c, "make len")
	tElt := instr.Type().Underlying().(*types.Slice).Elem()
	s := make([]Value, c)
	for i := range s {
		s[i] = p.zero(tElt)
	}
	return s[:l]
}

// noteAlloc records an allocation of n elements; if the harness set an allocation limit the request is an obligation.
func (p *Path) noteAlloc(fr *frame, pos token.Pos, n *Term) {
	if p.allocLimit == nil {
		return
	}
	c := p.st.Cmp(OpUle, n, p.allocLimit)
	p.doAssert(c, "alloc-bounded-by-input", p.pos(pos))
}

// growSlice implements append's growth: returns a slice with len(old)+n usable elements.
func (p *Path) appendVals(fr *frame, old []Value, elems []Value) []Value {
	if len(elems) == 0 {
		return old
	}
	need := len(old) + len(elems)
	if need <= cap(old) {
		r := old[:need]
		copy(r[len(old):], elems)
		return r
	}
	newCap := need
	if p.eng.cfg.SpareCap {
		newCap = 2*need + 8
	}
	r := make([]Value, need, newCap)
	for i, v := range old {
		r[i] = copyVal(v) // growth copies the elements: the old backing array stays independent
	}
	copy(r[len(old):], elems)
	return r
}

// elemsOf returns the elements of a slice-like value as engine values (materialising symbolic views).
func (p *Path) elemsOf(v Value) []Value {
	switch v := v.(type) {
	case []Value:
		return v
	case *SymSlice:
		n := p.concretize(v.Len, v.Max, "length of input view")
		out := make([]Value, n)
		for i := range out {
			out[i] = p.st.Select(v.Arr, p.st.Add(v.Off, p.st.BV(64, uint64(i))))
		}
		return out
	case *Str:
		bs := p.strBytes(v)
		out := make([]Value, len(bs))
		for i, b := range bs {
			out[i] = b
		}
		return out
	}
	p.unsupported("elemsOf %T", v)
	return nil
}

var _ = fmt.Sprintf


// runeToStr: string(r) for a symbolic integer: case split on the UTF-8 length classes (one path each), bytes as terms
func (p *Path) runeToStr(x *Term, tsrc types.Type) *Str {
	st := p.st
	_, sgn, _, _ := basicInfo(tsrc)
	var v *Term
	if x.W < 32 {
		if sgn {
			v = st.SExt(x, 32)
		} else {
			v = st.ZExt(x, 32)
		}
	} else if x.W > 32 {
		// out of range (also: negative) iff the value does not fit the 21-bit code space
		hi := st.Extract(x, x.W-1, 21)
		if p.decide(st.Not(st.Cmp(OpEq, hi, st.BV(x.W-21, 0)))) {
			return mkStr("\uFFFD")
		}
		v = st.Extract(x, 31, 0)
	} else {
		v = x
	}
	c := func(n uint64) *Term { return st.BV(32, n) }
	b8 := func(t *Term) *Term { return st.Extract(t, 7, 0) }
	or := func(a *Term, k uint64) *Term { return st.Bin(OpBOr, a, c(k)) }
	and := func(a *Term, k uint64) *Term { return st.Bin(OpBAnd, a, c(k)) }
	shr := func(a *Term, k uint64) *Term { return st.Bin(OpLShr, a, c(k)) }
	if p.decide(st.Cmp(OpUlt, v, c(0x80))) {
		return &Str{Sym: []*Term{b8(v)}}
	}
	if p.decide(st.Cmp(OpUlt, v, c(0x800))) {
		return &Str{Sym: []*Term{b8(or(shr(v, 6), 0xC0)), b8(or(and(v, 0x3F), 0x80))}}
	}
	bad := st.Or(st.Cmp(OpUlt, c(0x10FFFF), v), st.And(st.Cmp(OpUle, c(0xD800), v), st.Cmp(OpUle, v, c(0xDFFF))))
	if p.decide(bad) {
		return mkStr("\uFFFD")
	}
	if p.decide(st.Cmp(OpUlt, v, c(0x10000))) {
		return &Str{Sym: []*Term{b8(or(shr(v, 12), 0xE0)), b8(or(and(shr(v, 6), 0x3F), 0x80)), b8(or(and(v, 0x3F), 0x80))}}
	}
	return &Str{Sym: []*Term{b8(or(shr(v, 18), 0xF0)), b8(or(and(shr(v, 12), 0x3F), 0x80)), b8(or(and(shr(v, 6), 0x3F), 0x80)), b8(or(and(v, 0x3F), 0x80))}}
}
