package main

import (
	"encoding/json"
	"flag"
	"fmt"
	"os"
	"regexp"
	"sort"
	"strconv"
	"strings"
	"sync"
	"time"

	"golang.org/x/tools/go/ssa"

	"gose"
)

type multi []string

func (m *multi) String() string     { return strings.Join(*m, ",") }
func (m *multi) Set(s string) error { *m = append(*m, s); return nil }

func main() {
	if len(os.Args) < 2 {
		fmt.Fprintln(os.Stderr, "usage: gose run [flags]")
		os.Exit(2)
	}
	switch os.Args[1] {
	case "run":
		run(os.Args[2:])
	default:
		fmt.Fprintln(os.Stderr, "unknown command", os.Args[1])
		os.Exit(2)
	}
}

func run(args []string) {
	fs := flag.NewFlagSet("run", flag.ExitOnError)
	dir := fs.String("dir", ".", "directory to load packages from")
	var pats, overlays, params multi
	fs.Var(&pats, "pkg", "package pattern (repeatable)")
	fs.Var(&overlays, "overlay", "virtual=real file overlay (repeatable)")
	fs.Var(&params, "param", "name=int harness parameter (repeatable)")
	var stubs multi
	fs.Var(&stubs, "stub", "full name of a function to replace by an empty body returning zero values (logging/formatting; recorded in the evidence; repeatable)")
	harness := fs.String("harness", "^Verif", "regexp of harness function names")
	workers := fs.Int("workers", 16, "parallel workers")
	solver := fs.String("solver", "z3-new", "z3-new (5.1.0, default) | z3 (4.8.12) | cvc5 | cvc5-int")
	feas := fs.Int("feas-ms", 10000, "feasibility query timeout")
	oblig := fs.Int("oblig-ms", 120000, "obligation query timeout")
	maxSteps := fs.Int("max-steps", 3000000, "instruction budget per path")
	maxLoop := fs.Int("max-loop", 2000, "loop-head visits per frame")
	maxPaths := fs.Int("max-paths", 1000000, "path budget per harness")
	wall := fs.Duration("wall", 0, "wall budget per harness")
	out := fs.String("out", "", "result JSON file")
	models := fs.Int("models", 0, "extract a model for up to N completed paths per harness (native validation)")
	spare := fs.Bool("spare-cap", false, "append grows with spare capacity")
	trace := fs.Bool("trace", false, "trace calls")
	tags := fs.String("tags", "", "build tags")
	stopv := fs.Bool("stop-on-violation", false, "stop a harness at its first violation")
	fs.Parse(args)

	ov := map[string][]byte{}
	for _, o := range overlays {
		kv := strings.SplitN(o, "=", 2)
		if len(kv) != 2 {
			fatal("bad overlay " + o)
		}
		b, err := os.ReadFile(kv[1])
		if err != nil {
			fatal(err.Error())
		}
		ov[kv[0]] = b
	}
	pm := map[string]int{}
	for _, s := range params {
		kv := strings.SplitN(s, "=", 2)
		v, err := strconv.Atoi(kv[1])
		if err != nil {
			fatal("bad param " + s)
		}
		pm[kv[0]] = v
	}
	t0 := time.Now()
	lc := gose.LoadConfig{Dir: *dir, Patterns: pats, Overlay: ov}
	if *tags != "" {
		lc.Tags = strings.Split(*tags, ",")
	}
	prog, err := gose.Load(lc)
	if err != nil {
		fatal(err.Error())
	}
	loadT := time.Since(t0)
	re := regexp.MustCompile(*harness)
	type hres struct {
		*gose.HarnessResult
		Pkg string
	}
	report := struct {
		LoadS     float64
		Harnesses []hres
	}{LoadS: loadT.Seconds()}
	cfg := gose.Config{Workers: *workers, SolverKind: *solver, FeasMs: *feas, ObligMs: *oblig, MaxSteps: *maxSteps,
		MaxLoop: *maxLoop, MaxPaths: *maxPaths, Wall: *wall, Params: pm, ModelPerPath: *models > 0, ModelMax: *models, SpareCap: *spare, Trace: *trace, StopOnViol: *stopv, StubFuncs: stubs}
	eng := gose.NewEngine(prog, cfg)
	var fns []*ssa.Function
	pkgOf := map[string]string{}
	for _, pp := range prog.PPkgs {
		sp := prog.Prog.Package(pp.Types)
		if sp == nil {
			continue
		}
		var names []string
		for name := range sp.Members {
			names = append(names, name)
		}
		sort.Strings(names)
		for _, name := range names {
			fn := sp.Func(name)
			if fn == nil || !re.MatchString(name) || fn.Signature.Params().Len() != 0 {
				continue
			}
			fns = append(fns, fn)
			pkgOf[name] = pp.PkgPath
		}
	}
	var pmu sync.Mutex
	results := eng.RunHarnesses(fns, func(hr *gose.HarnessResult) {
		pmu.Lock()
		defer pmu.Unlock()
		fmt.Printf("%-40s paths=%d outcomes=%v forks=%d queries(oblig)=%d viol=%d unknown=%d problems=%d wall=%.1fs\n",
			hr.Name, hr.Paths, hr.Outcomes, hr.Forks, hr.Obligations, len(hr.Violations), len(hr.Unknowns), len(hr.Problems), hr.Wall.Seconds())
		for _, pr := range hr.Problems {
			fmt.Println("   PROBLEM:", firstLines(pr, 12))
		}
		for i, v := range hr.Violations {
			if i >= 5 {
				break
			}
			fmt.Printf("   VIOL %s %s %s at %s inputs=%s\n", v.Kind, v.ID, v.Msg, v.Site, fmtInputs(v.Inputs))
		}
		for _, u := range hr.Unknowns {
			fmt.Println("   UNKNOWN:", u)
		}
	})
	for _, hr := range results {
		report.Harnesses = append(report.Harnesses, hres{hr, pkgOf[hr.Name]})
	}
	if *out != "" {
		b, _ := json.MarshalIndent(report, "", " ")
		os.WriteFile(*out, b, 0o644)
	}
}

func fmtInputs(in []gose.InputVal) string {
	var parts []string
	for _, i := range in {
		if i.Kind == "bytes" || i.Kind == "string" {
			parts = append(parts, fmt.Sprintf("%s=%x", i.Kind, i.Bytes))
		} else {
			parts = append(parts, fmt.Sprintf("%s=%d", i.Kind, i.U))
		}
	}
	return strings.Join(parts, " ")
}

func firstLines(s string, n int) string {
	ls := strings.Split(s, "\n")
	if len(ls) > n {
		ls = ls[:n]
	}
	return strings.Join(ls, "\n      ")
}

func fatal(s string) {
	fmt.Fprintln(os.Stderr, "gose:", s)
	os.Exit(3)
}
