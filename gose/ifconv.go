package gose

import (
	"go/token"

	"golang.org/x/tools/go/ssa"
)

// If-conversion: an If on a symbolic condition whose arms are short, side-effect-free blocks meeting in a common
// successor is not forked; the arms are executed speculatively and the join's phis become ite terms.

type specAbort struct{}

const maxSpecInstrs = 16

func pureKind(in ssa.Instruction) bool {
	switch in := in.(type) {
	case *ssa.BinOp, *ssa.Convert, *ssa.ChangeType, *ssa.Field, *ssa.FieldAddr, *ssa.IndexAddr, *ssa.Index, *ssa.Extract, *ssa.DebugRef, *ssa.ChangeInterface:
		return true
	case *ssa.UnOp:
		return in.Op != token.ARROW
	}
	return false
}

// specSide describes one arm: blk is the speculated block (nil when the edge goes straight to the join).
func specSide(b, succ *ssa.BasicBlock) (blk, join *ssa.BasicBlock, ok bool) {
	if len(succ.Preds) == 1 && len(succ.Succs) == 1 {
		n := len(succ.Instrs)
		if n-1 > maxSpecInstrs {
			return nil, nil, false
		}
		if _, isJump := succ.Instrs[n-1].(*ssa.Jump); !isJump {
			return nil, nil, false
		}
		for _, in := range succ.Instrs[:n-1] {
			if !pureKind(in) {
				return nil, nil, false
			}
		}
		return succ, succ.Succs[0], true
	}
	return nil, succ, true
}

func (p *Path) tryIfConvert(fr *frame, instr *ssa.If, c *Term) (Value, bool) {
	if p.spec {
		return nil, false
	}
	b := fr.block
	tb, tj, ok1 := specSide(b, b.Succs[0])
	fb, fj, ok2 := specSide(b, b.Succs[1])
	if !ok1 || !ok2 || tj != fj || (tb == nil && fb == nil) {
		return nil, false
	}
	j := tj
	if j == b {
		return nil, false
	}
	// the join must start with phis only for values we can merge; find pred indices
	tPred, fPred := b, b
	if tb != nil {
		tPred = tb
	}
	if fb != nil {
		fPred = fb
	}
	ti, fi := -1, -1
	for i, pr := range j.Preds {
		if pr == tPred && ti < 0 {
			ti = i
		} else if pr == fPred && fi < 0 {
			fi = i
		}
	}
	if tPred == fPred {
		return nil, false // both edges from the same block (degenerate)
	}
	if ti < 0 || fi < 0 {
		return nil, false
	}
	okSpec := func(blk *ssa.BasicBlock) (ok bool) {
		if blk == nil {
			return true
		}
		p.spec = true
		defer func() {
			p.spec = false
			if r := recover(); r != nil {
				if _, isAbort := r.(specAbort); isAbort {
					ok = false
					return
				}
				panic(r)
			}
		}()
		saveCur := fr.cur
		for _, in := range blk.Instrs[:len(blk.Instrs)-1] {
			fr.cur = in
			visitInstr(fr, in)
		}
		fr.cur = saveCur
		return true
	}
	if !okSpec(tb) || !okSpec(fb) {
		return nil, false
	}
	over := map[*ssa.Phi]Value{}
	for _, in := range j.Instrs {
		phi, isPhi := in.(*ssa.Phi)
		if !isPhi {
			break
		}
		vt, vf := fr.get(phi.Edges[ti]), fr.get(phi.Edges[fi])
		xt, okT := vt.(*Term)
		xf, okF := vf.(*Term)
		switch {
		case okT && okF && xt.W == xf.W:
			over[phi] = p.st.Ite(c, xt, xf)
		default:
			if pt, ok := vt.(*Value); ok {
				if pf, ok := vf.(*Value); ok && pt == pf {
					over[phi] = vt
					continue
				}
			}
			return nil, false
		}
	}
	p.steps += 2
	fr.phiOverride = over
	fr.prevBlock, fr.block = tPred, j
	p.res.IfConv++
	return nil, true
}
