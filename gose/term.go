package gose

// Terms: hash-consed SMT terms over Bool and fixed-width bit-vectors (w <= 64),
// plus named byte arrays (Array (_ BitVec 64) (_ BitVec 8)) used only under select,
// and uninterpreted functions.

import (
	"fmt"
	"math"
	"math/bits"
	"strings"
)

type Op uint8

const (
	OpConst Op = iota
	OpVar      // named constant (Bool or BV)
	OpArr      // named array constant
	OpNot
	OpAnd
	OpOr
	OpIte
	OpEq
	OpAdd
	OpSub
	OpMul
	OpUDiv
	OpURem
	OpSDiv
	OpSRem
	OpBAnd
	OpBOr
	OpBXor
	OpBNot
	OpNeg
	OpShl
	OpLShr
	OpAShr
	OpUlt
	OpUle
	OpSlt
	OpSle
	OpConcat
	OpExtract // c = hi<<8|lo
	OpZExt    // to width w
	OpSExt
	OpSelect // args: arr, idx(64) -> 8
	OpUF     // name, args -> width w
	OpFpEq   // float compare on bit patterns, c = float width
	OpFpLt
	OpFpLe
	OpFpCvt   // c = from width; w = to width (float->float)
	OpFpIsNaN // c = width
	OpFpToSI  // float->signed int; c = from width
	OpFpToUI
	OpSIToFp // c = from int width ; w = float width
	OpUIToFp
	OpFpAdd
	OpFpSub
	OpFpMul
	OpFpDiv
	OpFpNeg
)

const ArrW = -1 // pseudo width for array sort

type Term struct {
	Op   Op
	W    int // 0 bool, >0 BV width, ArrW array
	Args []*Term
	C    uint64
	Name string
	ID   int
}

func (t *Term) IsConst() bool { return t.Op == OpConst }
func (t *Term) IsTrue() bool  { return t.Op == OpConst && t.W == 0 && t.C == 1 }
func (t *Term) IsFalse() bool { return t.Op == OpConst && t.W == 0 && t.C == 0 }

type termKey struct {
	op         Op
	w          int
	c          uint64
	name       string
	a0, a1, a2 int
	rest       string
}

type Store struct {
	tab    map[termKey]*Term
	nextID int
	True   *Term
	False  *Term
	ufs    map[string]ufSig
}

type ufSig struct {
	argW []int
	resW int
}

func NewStore() *Store {
	s := &Store{tab: map[termKey]*Term{}, ufs: map[string]ufSig{}}
	s.True = &Term{Op: OpConst, W: 0, C: 1, ID: s.id()}
	s.False = &Term{Op: OpConst, W: 0, C: 0, ID: s.id()}
	return s
}

func (s *Store) id() int { s.nextID++; return s.nextID }

func mask(w int) uint64 {
	if w >= 64 {
		return ^uint64(0)
	}
	return (uint64(1) << uint(w)) - 1
}

func (s *Store) Bool(b bool) *Term {
	if b {
		return s.True
	}
	return s.False
}

func (s *Store) BV(w int, v uint64) *Term {
	if w <= 0 || w > 64 {
		panic(fmt.Sprintf("BV width %d", w))
	}
	return &Term{Op: OpConst, W: w, C: v & mask(w), ID: s.id()}
}

func (s *Store) mk(op Op, w int, c uint64, name string, args ...*Term) *Term {
	k := termKey{op: op, w: w, c: c, name: name}
	for i, a := range args {
		id := a.ID
		if a.Op == OpConst { // consts are not hash-consed; key on value
			id = -int(a.C&0x3fffffffffff) - 1
			k.rest += fmt.Sprintf("c%d:%d:%d;", i, a.W, a.C)
		}
		switch i {
		case 0:
			k.a0 = id
		case 1:
			k.a1 = id
		case 2:
			k.a2 = id
		default:
			k.rest += fmt.Sprintf("%d,", id)
		}
	}
	if t, ok := s.tab[k]; ok {
		return t
	}
	t := &Term{Op: op, W: w, C: c, Name: name, Args: args, ID: s.id()}
	s.tab[k] = t
	return t
}

func (s *Store) Var(name string, w int) *Term { return s.mk(OpVar, w, 0, name) }
func (s *Store) Arr(name string) *Term        { return s.mk(OpArr, ArrW, 0, name) }

func same(a, b *Term) bool {
	if a == b {
		return true
	}
	return a.Op == OpConst && b.Op == OpConst && a.W == b.W && a.C == b.C
}

func (s *Store) Not(a *Term) *Term {
	if a.Op == OpConst {
		return s.Bool(a.C == 0)
	}
	if a.Op == OpNot {
		return a.Args[0]
	}
	return s.mk(OpNot, 0, 0, "", a)
}

func (s *Store) And(a, b *Term) *Term {
	if a.IsFalse() || b.IsFalse() {
		return s.False
	}
	if a.IsTrue() {
		return b
	}
	if b.IsTrue() {
		return a
	}
	if a == b {
		return a
	}
	if (a.Op == OpNot && a.Args[0] == b) || (b.Op == OpNot && b.Args[0] == a) {
		return s.False
	}
	return s.mk(OpAnd, 0, 0, "", a, b)
}

func (s *Store) Or(a, b *Term) *Term {
	if a.IsTrue() || b.IsTrue() {
		return s.True
	}
	if a.IsFalse() {
		return b
	}
	if b.IsFalse() {
		return a
	}
	if a == b {
		return a
	}
	if (a.Op == OpNot && a.Args[0] == b) || (b.Op == OpNot && b.Args[0] == a) {
		return s.True
	}
	return s.mk(OpOr, 0, 0, "", a, b)
}

func (s *Store) AndN(ts ...*Term) *Term {
	r := s.True
	for _, t := range ts {
		r = s.And(r, t)
	}
	return r
}

func (s *Store) Implies(a, b *Term) *Term { return s.Or(s.Not(a), b) }

func (s *Store) Ite(c, a, b *Term) *Term {
	if c.IsTrue() {
		return a
	}
	if c.IsFalse() {
		return b
	}
	if same(a, b) {
		return a
	}
	if a.W != b.W {
		panic(fmt.Sprintf("ite width mismatch %d %d", a.W, b.W))
	}
	if a.W == 0 {
		if a.IsTrue() && b.IsFalse() {
			return c
		}
		if a.IsFalse() && b.IsTrue() {
			return s.Not(c)
		}
		if a.IsTrue() {
			return s.Or(c, b)
		}
		if a.IsFalse() {
			return s.And(s.Not(c), b)
		}
		if b.IsTrue() {
			return s.Or(s.Not(c), a)
		}
		if b.IsFalse() {
			return s.And(c, a)
		}
	}
	if c.Op == OpNot {
		return s.Ite(c.Args[0], b, a)
	}
	return s.mk(OpIte, a.W, 0, "", c, a, b)
}

func (s *Store) Eq(a, b *Term) *Term {
	if a.W != b.W {
		panic(fmt.Sprintf("eq width mismatch %d %d (%s) (%s)", a.W, b.W, a, b))
	}
	if same(a, b) {
		return s.True
	}
	if a.Op == OpConst && b.Op == OpConst {
		return s.Bool(a.C == b.C)
	}
	if a.Op == OpConst {
		a, b = b, a
	}
	if a.W == 0 {
		if b.IsTrue() {
			return a
		}
		if b.IsFalse() {
			return s.Not(a)
		}
	}
	if b.Op == OpConst {
		// eq(ite(c,k1,k2),k)
		if a.Op == OpIte {
			x, y := a.Args[1], a.Args[2]
			if x.Op == OpConst || y.Op == OpConst {
				return s.Ite(a.Args[0], s.Eq(x, b), s.Eq(y, b))
			}
		}
		// eq(zext(x), k)
		if a.Op == OpZExt {
			x := a.Args[0]
			if b.C&^mask(x.W) != 0 {
				return s.False
			}
			return s.Eq(x, s.BV(x.W, b.C))
		}
		// eq(x + k1, k) -> eq(x, k-k1)
		if a.Op == OpAdd && a.Args[1].Op == OpConst {
			return s.Eq(a.Args[0], s.BV(a.W, b.C-a.Args[1].C))
		}
	}
	if a.ID > b.ID && b.Op != OpConst {
		a, b = b, a
	}
	return s.mk(OpEq, 0, 0, "", a, b)
}

func (s *Store) Ne(a, b *Term) *Term { return s.Not(s.Eq(a, b)) }

func sext64(v uint64, w int) int64 {
	if w >= 64 {
		return int64(v)
	}
	sh := uint(64 - w)
	return int64(v<<sh) >> sh
}

// Bin builds a binary BV op with constant folding.
func (s *Store) Bin(op Op, a, b *Term) *Term {
	if a.W != b.W {
		panic(fmt.Sprintf("bin %d width mismatch %d %d", op, a.W, b.W))
	}
	w := a.W
	if a.Op == OpConst && b.Op == OpConst {
		x, y := a.C, b.C
		var r uint64
		switch op {
		case OpAdd:
			r = x + y
		case OpSub:
			r = x - y
		case OpMul:
			r = x * y
		case OpUDiv:
			if y == 0 {
				r = mask(w)
			} else {
				r = x / y
			}
		case OpURem:
			if y == 0 {
				r = x
			} else {
				r = x % y
			}
		case OpSDiv:
			sx, sy := sext64(x, w), sext64(y, w)
			if sy == 0 {
				if sx < 0 {
					r = 1
				} else {
					r = mask(w)
				}
			} else if sy == -1 {
				r = uint64(-sx)
			} else {
				r = uint64(sx / sy)
			}
		case OpSRem:
			sx, sy := sext64(x, w), sext64(y, w)
			if sy == 0 {
				r = x
			} else if sy == -1 {
				r = 0
			} else {
				r = uint64(sx % sy)
			}
		case OpBAnd:
			r = x & y
		case OpBOr:
			r = x | y
		case OpBXor:
			r = x ^ y
		case OpShl:
			if y >= uint64(w) {
				r = 0
			} else {
				r = x << y
			}
		case OpLShr:
			if y >= uint64(w) {
				r = 0
			} else {
				r = x >> y
			}
		case OpAShr:
			sx := sext64(x, w)
			if y >= uint64(w) {
				y = uint64(w - 1)
			}
			r = uint64(sx >> y)
		default:
			panic("bad bin op")
		}
		return s.BV(w, r)
	}
	// identities
	switch op {
	case OpAdd:
		if a.Op == OpConst {
			a, b = b, a
		}
		if b.Op == OpConst {
			if b.C == 0 {
				return a
			}
			if a.Op == OpAdd && a.Args[1].Op == OpConst {
				return s.Bin(OpAdd, a.Args[0], s.BV(w, a.Args[1].C+b.C))
			}
			if a.Op == OpSub && a.Args[1].Op == OpConst {
				return s.Bin(OpAdd, a.Args[0], s.BV(w, b.C-a.Args[1].C))
			}
		}
	case OpSub:
		if b.Op == OpConst {
			if b.C == 0 {
				return a
			}
			return s.Bin(OpAdd, a, s.BV(w, -b.C))
		}
		if a == b {
			return s.BV(w, 0)
		}
		// (x + k) - x
		if a.Op == OpAdd && a.Args[0] == b {
			return a.Args[1]
		}
		// (x+k1) - (x+k2)
		if a.Op == OpAdd && b.Op == OpAdd && a.Args[0] == b.Args[0] && a.Args[1].Op == OpConst && b.Args[1].Op == OpConst {
			return s.BV(w, a.Args[1].C-b.Args[1].C)
		}
		if b.Op == OpAdd && b.Args[0] == a && b.Args[1].Op == OpConst {
			return s.BV(w, -b.Args[1].C)
		}
	case OpMul:
		if a.Op == OpConst {
			a, b = b, a
		}
		if b.Op == OpConst {
			if b.C == 0 {
				return b
			}
			if b.C == 1 {
				return a
			}
		}
	case OpBAnd:
		if a.Op == OpConst {
			a, b = b, a
		}
		if b.Op == OpConst {
			if b.C == 0 {
				return b
			}
			if b.C == mask(w) {
				return a
			}
			if a.Op == OpZExt && b.C&mask(a.Args[0].W) == mask(a.Args[0].W) {
				return a
			}
		}
		if a == b {
			return a
		}
	case OpBOr:
		if a.Op == OpConst {
			a, b = b, a
		}
		if b.Op == OpConst {
			if b.C == 0 {
				return a
			}
			if b.C == mask(w) {
				return b
			}
		}
		if a == b {
			return a
		}
	case OpBXor:
		if a.Op == OpConst {
			a, b = b, a
		}
		if b.Op == OpConst && b.C == 0 {
			return a
		}
		if a == b {
			return s.BV(w, 0)
		}
	case OpShl, OpLShr, OpAShr:
		if b.Op == OpConst {
			if b.C == 0 {
				return a
			}
			if b.C >= uint64(w) && op != OpAShr {
				return s.BV(w, 0)
			}
		}
		if a.Op == OpConst && a.C == 0 {
			return a
		}
	case OpUDiv:
		if b.Op == OpConst && b.C == 1 {
			return a
		}
	case OpURem:
		if b.Op == OpConst && b.C == 1 {
			return s.BV(w, 0)
		}
	}
	return s.mk(op, w, 0, "", a, b)
}

func (s *Store) Add(a, b *Term) *Term { return s.Bin(OpAdd, a, b) }
func (s *Store) Sub(a, b *Term) *Term { return s.Bin(OpSub, a, b) }

func (s *Store) BNot(a *Term) *Term {
	if a.Op == OpConst {
		return s.BV(a.W, ^a.C)
	}
	if a.Op == OpBNot {
		return a.Args[0]
	}
	return s.mk(OpBNot, a.W, 0, "", a)
}

func (s *Store) Neg(a *Term) *Term {
	if a.Op == OpConst {
		return s.BV(a.W, -a.C)
	}
	return s.mk(OpNeg, a.W, 0, "", a)
}

// Cmp builds ult/ule/slt/sle.
func (s *Store) Cmp(op Op, a, b *Term) *Term {
	if a.W != b.W {
		panic(fmt.Sprintf("cmp width mismatch %d %d", a.W, b.W))
	}
	w := a.W
	if a.Op == OpConst && b.Op == OpConst {
		switch op {
		case OpUlt:
			return s.Bool(a.C < b.C)
		case OpUle:
			return s.Bool(a.C <= b.C)
		case OpSlt:
			return s.Bool(sext64(a.C, w) < sext64(b.C, w))
		case OpSle:
			return s.Bool(sext64(a.C, w) <= sext64(b.C, w))
		}
	}
	if a == b {
		return s.Bool(op == OpUle || op == OpSle)
	}
	switch op {
	case OpUlt:
		if b.Op == OpConst && b.C == 0 {
			return s.False
		}
		if a.Op == OpConst && a.C == mask(w) {
			return s.False
		}
		// zext(x) < k with k > max(x)
		if a.Op == OpZExt && b.Op == OpConst && b.C > mask(a.Args[0].W) {
			return s.True
		}
	case OpUle:
		if a.Op == OpConst && a.C == 0 {
			return s.True
		}
		if b.Op == OpConst && b.C == mask(w) {
			return s.True
		}
		if a.Op == OpZExt && b.Op == OpConst && b.C >= mask(a.Args[0].W) {
			return s.True
		}
	case OpSlt:
		// zext(x) <s k, zext never negative when it really extends
		if a.Op == OpZExt && a.Args[0].W < w && b.Op == OpConst {
			if sext64(b.C, w) <= 0 {
				return s.False
			}
			if b.C > mask(a.Args[0].W) {
				return s.True
			}
		}
		if b.Op == OpZExt && b.Args[0].W < w && a.Op == OpConst && sext64(a.C, w) < 0 {
			return s.True
		}
	case OpSle:
		if a.Op == OpZExt && a.Args[0].W < w && b.Op == OpConst {
			if sext64(b.C, w) < 0 {
				return s.False
			}
			if b.C >= mask(a.Args[0].W) {
				return s.True
			}
		}
		if b.Op == OpZExt && b.Args[0].W < w && a.Op == OpConst && sext64(a.C, w) <= 0 {
			return s.True
		}
	}
	return s.mk(op, 0, 0, "", a, b)
}

func (s *Store) Concat(hi, lo *Term) *Term {
	w := hi.W + lo.W
	if w > 64 {
		panic("concat > 64")
	}
	if hi.Op == OpConst && lo.Op == OpConst {
		return s.BV(w, hi.C<<uint(lo.W)|lo.C)
	}
	if hi.Op == OpConst && hi.C == 0 {
		return s.ZExt(lo, w)
	}
	return s.mk(OpConcat, w, 0, "", hi, lo)
}

func (s *Store) Extract(a *Term, hi, lo int) *Term {
	w := hi - lo + 1
	if lo == 0 && w == a.W {
		return a
	}
	if a.Op == OpConst {
		return s.BV(w, a.C>>uint(lo))
	}
	switch a.Op {
	case OpZExt:
		x := a.Args[0]
		if hi < x.W {
			return s.Extract(x, hi, lo)
		}
		if lo >= x.W {
			return s.BV(w, 0)
		}
		if lo == 0 {
			return s.ZExt(x, w)
		}
	case OpSExt:
		x := a.Args[0]
		if hi < x.W {
			return s.Extract(x, hi, lo)
		}
	case OpConcat:
		h, l := a.Args[0], a.Args[1]
		if hi < l.W {
			return s.Extract(l, hi, lo)
		}
		if lo >= l.W {
			return s.Extract(h, hi-l.W, lo-l.W)
		}
	case OpExtract:
		l0 := int(a.C & 0xff)
		return s.Extract(a.Args[0], hi+l0, lo+l0)
	case OpBOr, OpBAnd, OpBXor:
		// push extraction inside bitwise ops when one side simplifies (common for byte packing)
		x, y := s.Extract(a.Args[0], hi, lo), s.Extract(a.Args[1], hi, lo)
		if x.Op == OpConst || y.Op == OpConst || w <= 8 {
			return s.Bin(a.Op, x, y)
		}
	case OpShl:
		if a.Args[1].Op == OpConst {
			k := int(a.Args[1].C)
			if lo >= k {
				return s.Extract(a.Args[0], hi-k, lo-k)
			}
			if hi < k {
				return s.BV(w, 0)
			}
		}
	case OpLShr:
		if a.Args[1].Op == OpConst {
			k := int(a.Args[1].C)
			if hi+k < a.W {
				return s.Extract(a.Args[0], hi+k, lo+k)
			}
			if lo+k >= a.W {
				return s.BV(w, 0)
			}
		}
	}
	return s.mk(OpExtract, w, uint64(hi)<<8|uint64(lo), "", a)
}

func (s *Store) ZExt(a *Term, w int) *Term {
	if w == a.W {
		return a
	}
	if w < a.W {
		return s.Extract(a, w-1, 0)
	}
	if a.Op == OpConst {
		return s.BV(w, a.C)
	}
	if a.Op == OpZExt {
		return s.ZExt(a.Args[0], w)
	}
	return s.mk(OpZExt, w, 0, "", a)
}

func (s *Store) SExt(a *Term, w int) *Term {
	if w == a.W {
		return a
	}
	if w < a.W {
		return s.Extract(a, w-1, 0)
	}
	if a.Op == OpConst {
		return s.BV(w, uint64(sext64(a.C, a.W)))
	}
	if a.Op == OpZExt && a.Args[0].W < a.W {
		return s.ZExt(a.Args[0], w)
	}
	return s.mk(OpSExt, w, 0, "", a)
}

func (s *Store) Select(arr, idx *Term) *Term {
	return s.mk(OpSelect, 8, 0, "", arr, idx)
}

func (s *Store) UF(name string, resW int, args ...*Term) *Term {
	if _, ok := s.ufs[name]; !ok {
		sig := ufSig{resW: resW}
		for _, a := range args {
			sig.argW = append(sig.argW, a.W)
		}
		s.ufs[name] = sig
	}
	return s.mk(OpUF, resW, 0, name, args...)
}

// ---- floats (bit patterns) ----

func fbits(a *Term, w int) float64 {
	if w == 32 {
		return float64(math.Float32frombits(uint32(a.C)))
	}
	return math.Float64frombits(a.C)
}

func (s *Store) FpCmp(op Op, a, b *Term) *Term {
	w := a.W
	if a.Op == OpConst && b.Op == OpConst {
		x, y := fbits(a, w), fbits(b, w)
		switch op {
		case OpFpEq:
			return s.Bool(x == y)
		case OpFpLt:
			return s.Bool(x < y)
		case OpFpLe:
			return s.Bool(x <= y)
		}
	}
	return s.mk(op, 0, uint64(w), "", a, b)
}

func (s *Store) FpIsNaN(a *Term) *Term {
	if a.Op == OpConst {
		return s.Bool(math.IsNaN(fbits(a, a.W)))
	}
	return s.mk(OpFpIsNaN, 0, uint64(a.W), "", a)
}

func (s *Store) FpCvt(a *Term, to int) *Term {
	if a.W == to {
		return a
	}
	if a.Op == OpConst {
		if to == 64 {
			return s.BV(64, math.Float64bits(float64(math.Float32frombits(uint32(a.C)))))
		}
		return s.BV(32, uint64(math.Float32bits(float32(math.Float64frombits(a.C)))))
	}
	return s.mk(OpFpCvt, to, uint64(a.W), "", a)
}

func (s *Store) FpArith(op Op, a, b *Term) *Term {
	w := a.W
	if a.Op == OpConst && b.Op == OpConst {
		if w == 32 {
			x, y := math.Float32frombits(uint32(a.C)), math.Float32frombits(uint32(b.C))
			var r float32
			switch op {
			case OpFpAdd:
				r = x + y
			case OpFpSub:
				r = x - y
			case OpFpMul:
				r = x * y
			case OpFpDiv:
				r = x / y
			}
			return s.BV(32, uint64(math.Float32bits(r)))
		}
		x, y := math.Float64frombits(a.C), math.Float64frombits(b.C)
		var r float64
		switch op {
		case OpFpAdd:
			r = x + y
		case OpFpSub:
			r = x - y
		case OpFpMul:
			r = x * y
		case OpFpDiv:
			r = x / y
		}
		return s.BV(64, math.Float64bits(r))
	}
	return s.mk(op, w, uint64(w), "", a, b)
}

func (s *Store) FpNeg(a *Term) *Term {
	// sign flip on the bit pattern (exact, also for NaN)
	return s.Bin(OpBXor, a, s.BV(a.W, uint64(1)<<uint(a.W-1)))
}

// int<->float conversions
func (s *Store) FpToInt(a *Term, toW int, signed bool) *Term {
	if a.Op == OpConst {
		f := fbits(a, a.W)
		if signed {
			return s.BV(toW, uint64(int64(f)))
		}
		return s.BV(toW, uint64(f))
	}
	op := OpFpToUI
	if signed {
		op = OpFpToSI
	}
	return s.mk(op, toW, uint64(a.W), "", a)
}

func (s *Store) IntToFp(a *Term, fw int, signed bool) *Term {
	if a.Op == OpConst {
		var f float64
		if signed {
			f = float64(sext64(a.C, a.W))
		} else {
			f = float64(a.C)
		}
		if fw == 32 {
			var f32 float32
			if signed {
				f32 = float32(sext64(a.C, a.W))
			} else {
				f32 = float32(a.C)
			}
			return s.BV(32, uint64(math.Float32bits(f32)))
		}
		return s.BV(64, math.Float64bits(f))
	}
	op := OpUIToFp
	if signed {
		op = OpSIToFp
	}
	return s.mk(op, fw, uint64(a.W), "", a)
}

// ---- printing ----

func sortStr(w int) string {
	switch {
	case w == 0:
		return "Bool"
	case w == ArrW:
		return "(Array (_ BitVec 64) (_ BitVec 8))"
	}
	return fmt.Sprintf("(_ BitVec %d)", w)
}

func constStr(t *Term) string {
	if t.W == 0 {
		if t.C != 0 {
			return "true"
		}
		return "false"
	}
	if t.W%4 == 0 {
		return fmt.Sprintf("#x%0*x", t.W/4, t.C)
	}
	return fmt.Sprintf("#b%0*b", t.W, t.C)
}

var opNames = map[Op]string{
	OpNot: "not", OpAnd: "and", OpOr: "or", OpIte: "ite", OpEq: "=",
	OpAdd: "bvadd", OpSub: "bvsub", OpMul: "bvmul", OpUDiv: "bvudiv", OpURem: "bvurem",
	OpSDiv: "bvsdiv", OpSRem: "bvsrem", OpBAnd: "bvand", OpBOr: "bvor", OpBXor: "bvxor",
	OpBNot: "bvnot", OpNeg: "bvneg", OpShl: "bvshl", OpLShr: "bvlshr", OpAShr: "bvashr",
	OpUlt: "bvult", OpUle: "bvule", OpSlt: "bvslt", OpSle: "bvsle", OpConcat: "concat",
	OpSelect: "select",
}

func fpSort(w uint64) string {
	if w == 32 {
		return "8 24"
	}
	return "11 53"
}

// head returns the SMT-LIB application of t given printed args.
func (t *Term) smt(args []string) string {
	switch t.Op {
	case OpConst:
		return constStr(t)
	case OpVar, OpArr:
		return t.Name
	case OpExtract:
		return fmt.Sprintf("((_ extract %d %d) %s)", t.C>>8, t.C&0xff, args[0])
	case OpZExt:
		return fmt.Sprintf("((_ zero_extend %d) %s)", t.W-t.Args[0].W, args[0])
	case OpSExt:
		return fmt.Sprintf("((_ sign_extend %d) %s)", t.W-t.Args[0].W, args[0])
	case OpUF:
		if len(args) == 0 {
			return t.Name
		}
		return "(" + t.Name + " " + strings.Join(args, " ") + ")"
	case OpFpEq, OpFpLt, OpFpLe:
		n := map[Op]string{OpFpEq: "fp.eq", OpFpLt: "fp.lt", OpFpLe: "fp.leq"}[t.Op]
		return fmt.Sprintf("(%s ((_ to_fp %s) %s) ((_ to_fp %s) %s))", n, fpSort(t.C), args[0], fpSort(t.C), args[1])
	case OpFpIsNaN:
		return fmt.Sprintf("(fp.isNaN ((_ to_fp %s) %s))", fpSort(t.C), args[0])
	case OpFpCvt, OpFpToSI, OpFpToUI, OpSIToFp, OpUIToFp, OpFpAdd, OpFpSub, OpFpMul, OpFpDiv:
		// these need fp->bv which SMT-LIB lacks as a function; handled by the solver layer via fresh vars
		panic("fp arithmetic term must be lowered by solver layer")
	}
	n, ok := opNames[t.Op]
	if !ok {
		panic(fmt.Sprintf("smt: op %d", t.Op))
	}
	return "(" + n + " " + strings.Join(args, " ") + ")"
}

// String prints a term as a (possibly large) tree; for debugging only.
func (t *Term) String() string {
	var b strings.Builder
	t.str(&b, 0)
	return b.String()
}

func (t *Term) str(b *strings.Builder, d int) {
	if d > 6 {
		b.WriteString("…")
		return
	}
	switch t.Op {
	case OpConst:
		b.WriteString(constStr(t))
		return
	case OpVar, OpArr:
		b.WriteString(t.Name)
		return
	}
	n := opNames[t.Op]
	if n == "" {
		n = fmt.Sprintf("op%d[%d]", t.Op, t.C)
	}
	if t.Op == OpUF {
		n = t.Name
	}
	b.WriteString("(" + n)
	for _, a := range t.Args {
		b.WriteByte(' ')
		a.str(b, d+1)
	}
	b.WriteByte(')')
}

// ---- evaluation under a model ----

type Model struct {
	Vars map[string]uint64
	Arrs map[string]map[uint64]uint8 // missing index => ArrDef
	ArrD map[string]uint8
	UFs  map[string]uint64 // key "name(a,b,..)" -> value; filled lazily by solver layer
}

func (m *Model) Eval(t *Term) (uint64, bool) {
	memo := map[*Term]uint64{}
	ok := true
	var ev func(t *Term) uint64
	ev = func(t *Term) uint64 {
		if t.Op == OpConst {
			return t.C
		}
		if v, ok := memo[t]; ok {
			return v
		}
		var r uint64
		a := func(i int) uint64 { return ev(t.Args[i]) }
		w := t.W
		switch t.Op {
		case OpVar:
			v, found := m.Vars[t.Name]
			if !found {
				v = 0
			}
			r = v
		case OpNot:
			r = a(0) ^ 1
		case OpAnd:
			r = a(0) & a(1)
		case OpOr:
			r = a(0) | a(1)
		case OpIte:
			if a(0) != 0 {
				r = a(1)
			} else {
				r = a(2)
			}
		case OpEq:
			if a(0) == a(1) {
				r = 1
			}
		case OpAdd, OpSub, OpMul, OpUDiv, OpURem, OpSDiv, OpSRem, OpBAnd, OpBOr, OpBXor, OpShl, OpLShr, OpAShr:
			st := NewStore()
			r = st.Bin(t.Op, st.BV(w, a(0)), st.BV(w, a(1))).C
		case OpBNot:
			r = ^a(0) & mask(w)
		case OpNeg:
			r = -a(0) & mask(w)
		case OpUlt, OpUle, OpSlt, OpSle:
			st := NewStore()
			aw := t.Args[0].W
			r = st.Cmp(t.Op, st.BV(aw, a(0)), st.BV(aw, a(1))).C
		case OpConcat:
			r = a(0)<<uint(t.Args[1].W) | a(1)
		case OpExtract:
			r = (a(0) >> uint(t.C&0xff)) & mask(w)
		case OpZExt:
			r = a(0)
		case OpSExt:
			r = uint64(sext64(a(0), t.Args[0].W)) & mask(w)
		case OpSelect:
			name := t.Args[0].Name
			idx := a(1)
			if mm, found := m.Arrs[name]; found {
				if v, f2 := mm[idx]; f2 {
					r = uint64(v)
					break
				}
			}
			r = uint64(m.ArrD[name])
		case OpFpEq, OpFpLt, OpFpLe:
			st := NewStore()
			aw := t.Args[0].W
			r = st.FpCmp(t.Op, st.BV(aw, a(0)), st.BV(aw, a(1))).C
		case OpFpIsNaN:
			st := NewStore()
			r = st.FpIsNaN(st.BV(t.Args[0].W, a(0))).C
		case OpFpCvt:
			st := NewStore()
			r = st.FpCvt(st.BV(t.Args[0].W, a(0)), w).C
		case OpFpAdd, OpFpSub, OpFpMul, OpFpDiv:
			st := NewStore()
			r = st.FpArith(t.Op, st.BV(w, a(0)), st.BV(w, a(1))).C
		case OpFpToSI, OpFpToUI:
			st := NewStore()
			r = st.FpToInt(st.BV(t.Args[0].W, a(0)), w, t.Op == OpFpToSI).C
		case OpSIToFp, OpUIToFp:
			st := NewStore()
			r = st.IntToFp(st.BV(t.Args[0].W, a(0)), w, t.Op == OpSIToFp).C
		case OpUF:
			key := t.Name + "("
			for i := range t.Args {
				key += fmt.Sprintf("%d,", a(i))
			}
			v, found := m.UFs[key]
			if !found {
				ok = false
			}
			r = v
		default:
			ok = false
		}
		memo[t] = r
		return r
	}
	v := ev(t)
	return v, ok
}

var _ = bits.Len
