package gose

import (
	"fmt"
	"go/token"
	"go/types"
	"slices"
	"strings"

	"golang.org/x/tools/go/ssa"
)

type deferred struct {
	fn    Value
	args  []Value
	instr *ssa.Defer
	tail  *deferred
}

type frame struct {
	p                *Path
	caller           *frame
	fn               *ssa.Function
	block, prevBlock *ssa.BasicBlock
	env              map[ssa.Value]Value
	locals           []Value
	defers           *deferred
	result           Value
	panicking        bool
	panic            interface{}
	phitemps         []Value
	visits           map[*ssa.BasicBlock]int
	cur              ssa.Instruction
	phiOverride      map[*ssa.Phi]Value
	entryDepth       int
}

func (fr *frame) get(key ssa.Value) Value {
	switch key := key.(type) {
	case nil:
		return nil
	case *ssa.Function, *ssa.Builtin:
		return key
	case *ssa.Const:
		return fr.p.constValue(key)
	case *ssa.Global:
		return fr.p.global(key)
	}
	if r, ok := fr.env[key]; ok {
		return r
	}
	panic(fmt.Sprintf("get: no value for %T: %v in %s", key, key.Name(), fr.fn))
}

func (p *Path) global(g *ssa.Global) *Value {
	if r, ok := p.globals[g]; ok {
		return r
	}
	// lazily create globals of this package and run its initialiser
	pkg := g.Pkg
	p.ensureInit(pkg)
	if r, ok := p.globals[g]; ok {
		return r
	}
	panic("global not created: " + g.String())
}

func (p *Path) ensureInit(pkg *ssa.Package) {
	if p.initDone[pkg] {
		return
	}
	p.initDone[pkg] = true
	if p.eng.isShared(pkg) {
		if !p.isInitPath {
			p.eng.sharedInit(pkg)
			p.eng.sharedMu.Lock()
			for _, m := range pkg.Members {
				if g, ok := m.(*ssa.Global); ok {
					p.globals[g] = p.eng.sharedGlobals[g]
				}
			}
			p.eng.sharedMu.Unlock()
			return
		}
		// init path (runs with sharedMu held by sharedInit)
		if p.eng.sharedDone[pkg] {
			for _, m := range pkg.Members {
				if g, ok := m.(*ssa.Global); ok {
					p.globals[g] = p.eng.sharedGlobals[g]
				}
			}
			return
		}
		// init path: create the shared cells and run the initialiser once
		p.eng.sharedDone[pkg] = true
		for _, m := range pkg.Members {
			if g, ok := m.(*ssa.Global); ok {
				cell := new(Value)
				*cell = p.zero(mustDeref(g.Type()))
				p.globals[g] = cell
				p.eng.sharedGlobals[g] = cell
			}
		}
		if init := pkg.Func("init"); init != nil && init.Blocks != nil {
			if p.inInit == nil {
				p.inInit = map[*ssa.Package]bool{}
			}
			p.inInit[pkg] = true
			saved := p.depth
			p.initDepth++
			p.call(nil, token.NoPos, init, nil)
			p.initDepth--
			p.depth = saved
		}
		return
	}
	for _, m := range pkg.Members {
		if g, ok := m.(*ssa.Global); ok {
			cell := new(Value)
			*cell = p.zero(mustDeref(g.Type()))
			p.globals[g] = cell
		}
	}
	if !p.eng.initAllowed(pkg) {
		return
	}
	if init := pkg.Func("init"); init != nil && init.Blocks != nil {
		saved := p.depth
		if p.inInit == nil {
			p.inInit = map[*ssa.Package]bool{}
		}
		p.inInit[pkg] = true
		p.initDepth++
		p.call(nil, token.NoPos, init, nil)
		p.initDepth--
		p.depth = saved
	}
}

func mustDeref(t types.Type) types.Type {
	if pt, ok := t.Underlying().(*types.Pointer); ok {
		return pt.Elem()
	}
	panic(fmt.Sprintf("mustDeref: %v", t))
}

func (fr *frame) runDefer(d *deferred) {
	var ok bool
	defer func() {
		if !ok {
			r := recover()
			if pe, isEnd := r.(pathEnd); isEnd {
				panic(pe)
			}
			if d, isDie := r.(dieNow); isDie {
				panic(d)
			}
			fr.panicking = true
			fr.panic = r
		}
	}()
	fr.p.call(fr, d.instr.Pos(), d.fn, d.args)
	ok = true
}

func (fr *frame) runDefers() {
	for d := fr.defers; d != nil; d = d.tail {
		fr.runDefer(d)
	}
	fr.defers = nil
	if fr.panicking {
		panic(fr.panic)
	}
}

type continuation int

const (
	kNext continuation = iota
	kReturn
	kJump
)

func (p *Path) runtimePanic(fr *frame, pos token.Pos, msg string) {
	if p.spec {
		panic(specAbort{})
	}
	site := p.pos(pos)
	if fr != nil && pos == token.NoPos {
		site = fr.fn.String()
	}
	panic(targetPanic{Iface{T: p.eng.runtimeErrorType(), V: mkStr("runtime error: " + msg)}, site})
}

func visitInstr(fr *frame, instr ssa.Instruction) continuation {
	p := fr.p
	switch instr := instr.(type) {
	case *ssa.DebugRef:
	case *ssa.UnOp:
		fr.env[instr] = p.unop(fr, instr, fr.get(instr.X))
	case *ssa.BinOp:
		fr.env[instr] = p.binop(fr, instr.Pos(), instr.Op, instr.X.Type(), fr.get(instr.X), fr.get(instr.Y))
	case *ssa.Call:
		fn, args := prepareCall(fr, &instr.Call, instr.Pos())
		fr.env[instr] = p.call(fr, instr.Pos(), fn, args)
	case *ssa.ChangeInterface:
		fr.env[instr] = fr.get(instr.X)
	case *ssa.ChangeType:
		fr.env[instr] = fr.get(instr.X)
	case *ssa.Convert:
		fr.env[instr] = p.conv(fr, instr.Pos(), instr.Type(), instr.X.Type(), fr.get(instr.X))
	case *ssa.MultiConvert:
		fr.env[instr] = p.conv(fr, instr.Pos(), instr.Type(), instr.X.Type(), fr.get(instr.X))
	case *ssa.SliceToArrayPointer:
		fr.env[instr] = p.sliceToArrayPointer(fr, instr, fr.get(instr.X))
	case *ssa.MakeInterface:
		fr.env[instr] = Iface{T: instr.X.Type(), V: fr.get(instr.X)}
	case *ssa.Extract:
		fr.env[instr] = fr.get(instr.Tuple).(Tuple)[instr.Index]
	case *ssa.Slice:
		fr.env[instr] = p.slice(fr, instr, fr.get(instr.X), fr.get(instr.Low), fr.get(instr.High), fr.get(instr.Max))
	case *ssa.Return:
		switch len(instr.Results) {
		case 0:
		case 1:
			fr.result = fr.get(instr.Results[0])
		default:
			res := make(Tuple, 0, len(instr.Results))
			for _, r := range instr.Results {
				res = append(res, fr.get(r))
			}
			fr.result = res
		}
		fr.block = nil
		return kReturn
	case *ssa.RunDefers:
		fr.runDefers()
	case *ssa.Panic:
		panic(targetPanic{fr.get(instr.X), p.pos(instr.Pos())})
	case *ssa.Send:
		p.chanSend(fr, fr.get(instr.Chan).(*Chan), fr.get(instr.X))
	case *ssa.Store:
		p.store(fr, instr.Pos(), fr.get(instr.Addr), fr.get(instr.Val))
	case *ssa.If:
		c := fr.get(instr.Cond).(*Term)
		succ := 1
		if c.Op != OpConst {
			if v, ok := p.tryIfConvert(fr, instr, c); ok {
				_ = v
				return kJump
			}
		}
		if p.decide(c) {
			succ = 0
		}
		fr.prevBlock, fr.block = fr.block, fr.block.Succs[succ]
		return kJump
	case *ssa.Jump:
		fr.prevBlock, fr.block = fr.block, fr.block.Succs[0]
		return kJump
	case *ssa.Defer:
		fn, args := prepareCall(fr, &instr.Call, instr.Pos())
		defers := &fr.defers
		if instr.DeferStack != nil {
			if into := fr.get(instr.DeferStack); into != nil {
				defers = into.(**deferred)
			}
		}
		*defers = &deferred{fn: fn, args: args, instr: instr, tail: *defers}
	case *ssa.Go:
		fn, args := prepareCall(fr, &instr.Call, instr.Pos())
		p.spawn(fr, instr.Pos(), fn, args)
	case *ssa.MakeChan:
		n := p.concretize(fr.get(instr.Size).(*Term), 64, "chan size")
		fr.env[instr] = &Chan{cap: n}
	case *ssa.Alloc:
		var addr *Value
		if instr.Heap {
			addr = new(Value)
			fr.env[instr] = addr
		} else {
			addr = fr.env[instr].(*Value)
		}
		*addr = p.zero(mustDeref(instr.Type()))
	case *ssa.MakeSlice:
		fr.env[instr] = p.makeSlice(fr, instr)
	case *ssa.MakeMap:
		fr.env[instr] = &Map{KT: instr.Type().Underlying().(*types.Map).Key()}
	case *ssa.Range:
		fr.env[instr] = p.rangeIter(fr, fr.get(instr.X), instr.X.Type())
	case *ssa.Next:
		fr.env[instr] = fr.get(instr.Iter).(iter).next(p, fr)
	case *ssa.FieldAddr:
		x := fr.get(instr.X)
		ptr, ok := x.(*Value)
		if !ok {
			p.unsupported("FieldAddr on %T at %s", x, p.pos(instr.Pos()))
		}
		if ptr == nil {
			p.runtimePanic(fr, instr.Pos(), "invalid memory address or nil pointer dereference")
		}
		fr.env[instr] = &(*ptr).(Struct)[instr.Field]
	case *ssa.Field:
		fr.env[instr] = fr.get(instr.X).(Struct)[instr.Field]
	case *ssa.IndexAddr:
		fr.env[instr] = p.indexAddr(fr, instr, fr.get(instr.X), fr.get(instr.Index).(*Term))
	case *ssa.Index:
		fr.env[instr] = p.index(fr, instr, fr.get(instr.X), fr.get(instr.Index).(*Term))
	case *ssa.Lookup:
		fr.env[instr] = p.lookup(fr, instr, fr.get(instr.X), fr.get(instr.Index))
	case *ssa.MapUpdate:
		m := fr.get(instr.Map).(*Map)
		if m == nil {
			p.runtimePanic(fr, instr.Pos(), "assignment to entry in nil map")
		}
		p.mapInsert(fr, m, fr.get(instr.Key), fr.get(instr.Value))
	case *ssa.TypeAssert:
		fr.env[instr] = p.typeAssert(fr, instr, fr.get(instr.X).(Iface))
	case *ssa.MakeClosure:
		var bindings []Value
		for _, b := range instr.Bindings {
			bindings = append(bindings, fr.get(b))
		}
		fr.env[instr] = &Closure{instr.Fn.(*ssa.Function), bindings}
	case *ssa.Phi:
		panic("unreachable phi")
	case *ssa.Select:
		fr.env[instr] = p.selectStmt(fr, instr)
	default:
		p.unsupported("instruction %T at %s", instr, p.pos(instr.Pos()))
	}
	return kNext
}

func prepareCall(fr *frame, call *ssa.CallCommon, pos token.Pos) (fn Value, args []Value) {
	v := fr.get(call.Value)
	if call.Method == nil {
		fn = v
	} else {
		recv := v.(Iface)
		if recv.T == nil {
			fr.p.runtimePanic(fr, pos, "invalid memory address or nil pointer dereference (method call on nil interface)")
		}
		f := fr.p.eng.prog.LookupMethod(recv.T, call.Method.Pkg(), call.Method.Name())
		if f == nil {
			panic(fmt.Sprintf("method set for dynamic type %v does not contain %s", recv.T, call.Method))
		}
		fn = f
		args = append(args, recv.V)
	}
	for _, arg := range call.Args {
		args = append(args, fr.get(arg))
	}
	return
}

func (p *Path) call(caller *frame, callpos token.Pos, fn Value, args []Value) Value {
	switch fn := fn.(type) {
	case *ssa.Function:
		if fn == nil {
			p.runtimePanic(caller, callpos, "invalid memory address or nil pointer dereference (call of nil func)")
		}
		return p.callSSA(caller, callpos, fn, args, nil)
	case *Closure:
		if fn == nil {
			p.runtimePanic(caller, callpos, "invalid memory address or nil pointer dereference (call of nil func)")
		}
		return p.callSSA(caller, callpos, fn.Fn, args, fn.Env)
	case *ssa.Builtin:
		return p.callBuiltin(caller, callpos, fn, args)
	case *nativeFunc:
		return fn.f(p, caller, args)
	}
	panic(fmt.Sprintf("cannot call %T", fn))
}

type nativeFunc struct {
	name string
	f    func(p *Path, fr *frame, args []Value) Value
}

func (p *Path) callSSA(caller *frame, callpos token.Pos, fn *ssa.Function, args []Value, env []Value) Value {
	fr := &frame{p: p, caller: caller, fn: fn}
	if fn.Name() == "init" && fn.Pkg != nil && fn == fn.Pkg.Func("init") && !p.inInit[fn.Pkg] {
		// a package initialiser calling the initialisers of its imports: initialisation is LAZY here — a package is
		// initialised when one of its globals is first touched (or on verifInitPkg), not because something imports it.
		// This keeps unrelated packages of a large import closure (os, net, flag, ...) out of every path.
		if p.initDepth > 0 && !p.eng.cfg.EagerInit {
			return nil
		}
		p.ensureInit(fn.Pkg)
		return nil
	}
	if intr := p.eng.lookupIntrinsic(fn); intr != nil {
		fr.block = nil
		fr.cur = nil
		if caller != nil {
			fr.cur = caller.cur
		}
		if r := intr(p, fr, callpos, args); r != (fallThrough{}) {
			return r
		}
	}
	if fn.Blocks == nil {
		p.unsupported("no code for function %s (called at %s)", fn, p.pos(callpos))
	}
	if env == nil && !p.eng.cfg.NoPureMerge {
		if r, ok := p.tryPureCall(fn, args); ok {
			return r
		}
	}
	if fn.TypeParams().Len() > 0 && len(fn.TypeArgs()) == 0 {
		p.unsupported("uninstantiated generic function %s", fn)
	}
	p.depth++
	fr.entryDepth = p.depth
	if p.depth > p.eng.cfg.MaxDepth {
		p.abort("unwind", "call depth %d exceeded in %s", p.eng.cfg.MaxDepth, fn)
	}
	if _, seen := p.funcs[fn]; !seen {
		n := 0
		for _, b := range fn.Blocks {
			n += len(b.Instrs)
		}
		p.funcs[fn] = n
	}
	if p.eng.cfg.Trace {
		fmt.Printf("%s> %s\n", strings.Repeat(" ", p.depth), fn)
	}
	fr.env = make(map[ssa.Value]Value)
	fr.block = fn.Blocks[0]
	fr.locals = make([]Value, len(fn.Locals))
	for i, l := range fn.Locals {
		fr.locals[i] = p.zero(mustDeref(l.Type()))
		fr.env[l] = &fr.locals[i]
	}
	for i, par := range fn.Params {
		fr.env[par] = args[i]
	}
	for i, fv := range fn.FreeVars {
		fr.env[fv] = env[i]
	}
	savedTop := p.top
	p.top = fr
	for fr.block != nil {
		runFrame(fr)
	}
	p.top = savedTop
	p.depth--
	return fr.result
}

func runFrame(fr *frame) {
	defer func() {
		if fr.block == nil {
			return // normal return
		}
		r := recover()
		if pe, ok := r.(pathEnd); ok {
			panic(pe)
		}
		if sa, ok := r.(specAbort); ok {
			panic(sa)
		}
		if d, ok := r.(dieNow); ok {
			panic(d)
		}
		if _, ok := r.(targetPanic); !ok {
			// engine bug or Go runtime error inside the engine: convert to an unsupported path end with details
			panic(pathEnd{"engine-error", fmt.Sprintf("%v in %s at %s\n%s", r, fr.fn, fr.p.curPos(fr), stackTrace())})
		}
		fr.panicking = true
		fr.panic = r
		fr.p.depth = fr.depthAtEntry()
		fr.runDefers()
		fr.block = fr.fn.Recover
		if fr.block == nil {
			// recovered, no named results: return zero
			fr.result = fr.p.zeroResult(fr.fn)
		}
	}()
	p := fr.p
	p.top = fr
	for {
		if fr.visits == nil {
			fr.visits = map[*ssa.BasicBlock]int{}
		}
		fr.visits[fr.block]++
		limit := p.eng.cfg.MaxLoop
		if p.loopBound > 0 {
			limit = p.loopBound
		}
		if fr.visits[fr.block] > limit && !p.isInitPath && p.initDepth == 0 {
			p.abort("unwind", "loop bound %d exceeded in %s block %d (%s)", limit, fr.fn, fr.block.Index, p.curPos(fr))
		}
		nonPhis := executePhis(fr)
		for _, instr := range nonPhis {
			p.steps++
			if p.steps > p.eng.cfg.MaxSteps && !p.isInitPath {
				p.abort("unwind", "step budget %d exceeded in %s", p.eng.cfg.MaxSteps, fr.fn)
			}
			fr.cur = instr
			if visitInstr(fr, instr) == kReturn {
				return
			}
		}
	}
}

func (p *Path) zeroResult(fn *ssa.Function) Value {
	res := fn.Signature.Results()
	switch res.Len() {
	case 0:
		return nil
	case 1:
		return p.zero(res.At(0).Type())
	}
	return p.zero(res)
}

func executePhis(fr *frame) []ssa.Instruction {
	firstNonPhi := -1
	for i, instr := range fr.block.Instrs {
		if _, ok := instr.(*ssa.Phi); !ok {
			firstNonPhi = i
			break
		}
	}
	nonPhis := fr.block.Instrs[firstNonPhi:]
	if firstNonPhi > 0 {
		phis := fr.block.Instrs[:firstNonPhi]
		predIndex := slices.Index(fr.block.Preds, fr.prevBlock)
		fr.phitemps = fr.phitemps[:0]
		for _, phi := range phis {
			phi := phi.(*ssa.Phi)
			if ov, ok := fr.phiOverride[phi]; ok {
				fr.phitemps = append(fr.phitemps, ov)
				continue
			}
			fr.phitemps = append(fr.phitemps, fr.get(phi.Edges[predIndex]))
		}
		for i, phi := range phis {
			fr.env[phi.(*ssa.Phi)] = fr.phitemps[i]
		}
		if fr.phiOverride != nil {
			fr.phiOverride = nil
		}
	}
	return nonPhis
}

func (p *Path) doRecover(caller *frame) Value {
	if caller != nil && !caller.panicking && caller.caller != nil && caller.caller.panicking {
		caller.caller.panicking = false
		pv := caller.caller.panic
		caller.caller.panic = nil
		switch pv := pv.(type) {
		case targetPanic:
			return pv.v
		default:
			panic(fmt.Sprintf("unexpected panic type %T in recover()", pv))
		}
	}
	return Iface{}
}
