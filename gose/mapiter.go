package gose

import (
	"fmt"
	"go/token"
	"go/types"

	"golang.org/x/tools/go/ssa"
)

// ---- maps: ordered association lists; symbolic key comparison forks ----

func (p *Path) mapFind(fr *frame, m *Map, k Value) *mapEntry {
	if m == nil {
		return nil
	}
	for _, e := range m.Entries {
		if e.dead {
			continue
		}
		if p.decide(p.equals(m.KT, e.k, k)) {
			return e
		}
	}
	return nil
}

func (p *Path) mapInsert(fr *frame, m *Map, k, v Value) {
	if e := p.mapFind(fr, m, k); e != nil {
		e.v = copyVal(v)
		return
	}
	m.Entries = append(m.Entries, &mapEntry{k: copyVal(k), v: copyVal(v)})
}

func (p *Path) mapDelete(fr *frame, m *Map, k Value) {
	if e := p.mapFind(fr, m, k); e != nil {
		e.dead = true
		// compact occasionally
		live := m.Entries[:0:0]
		for _, x := range m.Entries {
			if !x.dead {
				live = append(live, x)
			}
		}
		m.Entries = live
	}
}

func (p *Path) lookup(fr *frame, instr *ssa.Lookup, x, idx Value) Value {
	switch x := x.(type) {
	case *Map:
		vt := instr.X.Type().Underlying().(*types.Map).Elem()
		var v Value
		ok := false
		if e := p.mapFind(fr, x, idx); e != nil {
			v, ok = copyVal(e.v), true
		} else {
			v = p.zero(vt)
		}
		if instr.CommaOk {
			return Tuple{v, p.st.Bool(ok)}
		}
		return v
	case *Str:
		i := p.idx64(idx.(*Term), instr.Index.Type())
		return p.strIndex(fr, instr.Pos(), x, i)
	}
	p.unsupported("lookup on %T", x)
	return nil
}

// ---- iterators ----

type iter interface {
	next(p *Path, fr *frame) Tuple
}

type mapIter struct {
	ents []*mapEntry
	i    int
}

func (it *mapIter) next(p *Path, fr *frame) Tuple {
	for it.i < len(it.ents) {
		e := it.ents[it.i]
		it.i++
		if e.dead {
			continue
		}
		return Tuple{p.st.True, copyVal(e.k), copyVal(e.v)}
	}
	return Tuple{p.st.False, nil, nil}
}

type strIter struct {
	s   *Str
	off int
	bs  []*Term
}

func (it *strIter) next(p *Path, fr *frame) Tuple {
	if it.off >= len(it.bs) {
		return Tuple{p.st.False, p.st.BV(64, 0), p.st.BV(32, 0)}
	}
	// decode one rune using the real unicode/utf8 code on the remaining bytes
	rest := p.strFromTerms(it.bs[it.off:])
	var r, size *Term
	if rest.IsConc() {
		rr, sz := decodeRune(rest.S)
		r, size = p.st.BV(32, uint64(uint32(rr))), p.st.BV(64, uint64(sz))
	} else {
		fn := p.eng.funcByName("unicode/utf8", "DecodeRuneInString")
		if fn == nil {
			p.unsupported("range over symbolic string needs unicode/utf8 in the program")
		}
		res := p.call(fr, token.NoPos, fn, []Value{rest}).(Tuple)
		r, size = res[0].(*Term), res[1].(*Term)
	}
	k := p.st.BV(64, uint64(it.off))
	it.off += p.concretize(size, 4, "rune size")
	return Tuple{p.st.True, k, r}
}

func decodeRune(s string) (rune, int) {
	for i, r := range s {
		_ = i
		n := len(string(r))
		if r == 0xFFFD {
			// may be an invalid byte (size 1) or a real U+FFFD (size 3)
			if len(s) >= 3 && s[0] == 0xEF && s[1] == 0xBF && s[2] == 0xBD {
				return r, 3
			}
			return r, 1
		}
		return r, n
	}
	return 0xFFFD, 0
}

func (p *Path) rangeIter(fr *frame, x Value, t types.Type) iter {
	switch x := x.(type) {
	case *Map:
		if x == nil {
			return &mapIter{}
		}
		// snapshot of entries in insertion order (stated limitation: one iteration order)
		ents := make([]*mapEntry, len(x.Entries))
		copy(ents, x.Entries)
		return &mapIter{ents: ents}
	case *Str:
		return &strIter{s: x, bs: p.strBytes(x)}
	}
	panic(fmt.Sprintf("cannot range over %T", x))
}
