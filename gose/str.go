package gose

import (
	"go/token"
	"go/types"
)

// ---- strings ----

func (p *Path) strLen(s *Str) *Term {
	switch {
	case s.IsConc():
		return p.st.BV(64, uint64(len(s.S)))
	case s.Sym != nil:
		return p.st.BV(64, uint64(len(s.Sym)))
	}
	return s.Len
}

// strBytes materialises the bytes of s as terms (case-splitting the length of input views).
func (p *Path) strBytes(s *Str) []*Term {
	switch {
	case s.IsConc():
		out := make([]*Term, len(s.S))
		for i := 0; i < len(s.S); i++ {
			out[i] = p.st.BV(8, uint64(s.S[i]))
		}
		return out
	case s.Sym != nil:
		return s.Sym
	}
	n := p.concretize(s.Len, s.Max, "length of input string view")
	out := make([]*Term, n)
	for i := range out {
		out[i] = p.st.Select(s.Arr, p.st.Add(s.Off, p.st.BV(64, uint64(i))))
	}
	return out
}

// strFromTerms builds a string from byte terms, concrete if all are constants.
func (p *Path) strFromTerms(bs []*Term) *Str {
	allc := true
	for _, b := range bs {
		if b.Op != OpConst {
			allc = false
			break
		}
	}
	if allc {
		buf := make([]byte, len(bs))
		for i, b := range bs {
			buf[i] = byte(b.C)
		}
		return mkStr(string(buf))
	}
	cp := make([]*Term, len(bs))
	copy(cp, bs)
	return &Str{Sym: cp}
}

func (p *Path) bytesToStr(fr *frame, x []Value, tsrc types.Type) *Str {
	if sl, ok := tsrc.(*types.Slice); ok {
		if eb, ok := sl.Elem().Underlying().(*types.Basic); ok && eb.Kind() == types.Int32 {
			// []rune -> string: concrete only
			rs := make([]rune, len(x))
			for i, v := range x {
				t := v.(*Term)
				if t.Op != OpConst {
					p.unsupported("string([]rune) with symbolic runes")
				}
				rs[i] = rune(sext64(t.C, 32))
			}
			return mkStr(string(rs))
		}
	}
	bs := make([]*Term, len(x))
	for i, v := range x {
		bs[i] = v.(*Term)
	}
	return p.strFromTerms(bs)
}

func (p *Path) strToRunes(fr *frame, s *Str) Value {
	if !s.IsConc() {
		p.unsupported("[]rune(symbolic string)")
	}
	rs := []rune(s.S)
	out := make([]Value, len(rs))
	for i, r := range rs {
		out[i] = p.st.BV(32, uint64(uint32(r)))
	}
	return out
}

func (p *Path) strIndex(fr *frame, pos token.Pos, s *Str, idx *Term) *Term {
	n := p.strLen(s)
	p.checkIndex(fr, pos, idx, n)
	return p.strAt(s, idx)
}

// strAt returns s[idx] without a bounds check.
func (p *Path) strAt(s *Str, idx *Term) *Term {
	switch {
	case s.IsConc():
		if idx.Op == OpConst {
			return p.st.BV(8, uint64(s.S[idx.C]))
		}
		if len(s.S) == 0 {
			return p.st.BV(8, 0)
		}
		r := p.st.BV(8, uint64(s.S[len(s.S)-1]))
		for i := len(s.S) - 2; i >= 0; i-- {
			r = p.st.Ite(p.st.Eq(idx, p.st.BV(64, uint64(i))), p.st.BV(8, uint64(s.S[i])), r)
		}
		return r
	case s.Sym != nil:
		if idx.Op == OpConst {
			return s.Sym[idx.C]
		}
		if len(s.Sym) == 0 {
			return p.st.BV(8, 0)
		}
		r := s.Sym[len(s.Sym)-1]
		for i := len(s.Sym) - 2; i >= 0; i-- {
			r = p.st.Ite(p.st.Eq(idx, p.st.BV(64, uint64(i))), s.Sym[i], r)
		}
		return r
	}
	return p.st.Select(s.Arr, p.st.Add(s.Off, idx))
}

func (p *Path) strSlice(s *Str, lo, hi *Term) *Str {
	switch {
	case s.IsConc():
		l := p.concretize(lo, len(s.S), "string slice low")
		h := p.concretize(hi, len(s.S), "string slice high")
		return mkStr(s.S[l:h])
	case s.Sym != nil:
		l := p.concretize(lo, len(s.Sym), "string slice low")
		h := p.concretize(hi, len(s.Sym), "string slice high")
		return p.strFromTerms(s.Sym[l:h])
	}
	return &Str{Arr: s.Arr, Off: p.st.Add(s.Off, lo), Len: p.st.Sub(hi, lo), Max: s.Max}
}

func (p *Path) strConcat(a, b *Str) *Str {
	if a.IsConc() && b.IsConc() {
		return mkStr(a.S + b.S)
	}
	if a.IsConc() && a.S == "" {
		return b
	}
	if b.IsConc() && b.S == "" {
		return a
	}
	x, y := p.strBytes(a), p.strBytes(b)
	out := make([]*Term, 0, len(x)+len(y))
	out = append(out, x...)
	out = append(out, y...)
	return p.strFromTerms(out)
}

func (p *Path) strEq(a, b *Str) *Term {
	st := p.st
	if a.IsConc() && b.IsConc() {
		return st.Bool(a.S == b.S)
	}
	if !a.IsArr() && !b.IsArr() {
		x, y := p.strBytes(a), p.strBytes(b)
		if len(x) != len(y) {
			return st.False
		}
		r := st.True
		for i := range x {
			r = st.And(r, st.Eq(x[i], y[i]))
		}
		return r
	}
	// at least one is an input view with symbolic length
	la, lb := p.strLen(a), p.strLen(b)
	r := st.Eq(la, lb)
	bound := 0
	switch {
	case a.IsArr() && b.IsArr():
		bound = min(a.Max, b.Max)
	case a.IsArr():
		bound = min(a.Max, int(lb.C))
	default:
		bound = min(b.Max, int(la.C))
	}
	for i := 0; i < bound; i++ {
		ii := st.BV(64, uint64(i))
		in := st.Cmp(OpUlt, ii, la)
		r = st.And(r, st.Implies(in, st.Eq(p.strAt(a, ii), p.strAt(b, ii))))
	}
	return r
}

// strLess: lexicographic byte order.
func (p *Path) strLess(a, b *Str) *Term {
	st := p.st
	if a.IsConc() && b.IsConc() {
		return st.Bool(a.S < b.S)
	}
	x, y := p.strBytes(a), p.strBytes(b)
	// build from the end: less(i) = i>=len(x) ? (i<len(y)) : i>=len(y) ? false : x[i]<y[i] || (x[i]==y[i] && less(i+1))
	n := min(len(x), len(y))
	r := st.Bool(len(x) < len(y))
	for i := n - 1; i >= 0; i-- {
		r = st.Or(st.Cmp(OpUlt, x[i], y[i]), st.And(st.Eq(x[i], y[i]), r))
	}
	return r
}

// concStr returns the Go string if s is concrete.
func concStr(s *Str) (string, bool) {
	if s.IsConc() {
		return s.S, true
	}
	return "", false
}
