package gose

import (
	"go/token"
	"go/types"

	"golang.org/x/tools/go/ssa"
)

// Function-level if-conversion: a call of a small, loop-free, side-effect-free function on scalar arguments (character
// classes, min/max, flag tests ...) is not forked on; the function's control-flow DAG is evaluated symbolically and the
// result becomes one ite term. Calls to other such functions are merged recursively.

type pureInfo struct {
	ok    bool
	order []*ssa.BasicBlock // topological order
}

func scalarType(t types.Type) bool {
	_, _, _, ok := basicInfo(t)
	return ok
}

func (e *Engine) pureFunc(fn *ssa.Function, depth int) *pureInfo {
	e.pureMu.Lock()
	if pi, ok := e.pure[fn]; ok {
		e.pureMu.Unlock()
		return pi
	}
	e.pureMu.Unlock()
	pi := e.analysePure(fn, depth)
	e.pureMu.Lock()
	e.pure[fn] = pi
	e.pureMu.Unlock()
	return pi
}

func (e *Engine) analysePure(fn *ssa.Function, depth int) *pureInfo {
	bad := &pureInfo{}
	if fn.Blocks == nil || len(fn.Blocks) > 24 || depth > 3 || fn.Recover != nil || len(fn.FreeVars) > 0 {
		return bad
	}
	sig := fn.Signature
	if sig.Results().Len() != 1 || !scalarType(sig.Results().At(0).Type()) || sig.Recv() != nil {
		return bad
	}
	for i := 0; i < sig.Params().Len(); i++ {
		if !scalarType(sig.Params().At(i).Type()) {
			return bad
		}
	}
	n := 0
	for _, b := range fn.Blocks {
		for _, in := range b.Instrs {
			n++
			switch in := in.(type) {
			case *ssa.BinOp:
				switch in.Op {
				case token.QUO, token.REM, token.SHL, token.SHR:
					return bad // may panic / need care
				}
				if !scalarType(in.X.Type()) {
					return bad
				}
			case *ssa.UnOp:
				if in.Op == token.MUL || in.Op == token.ARROW {
					return bad
				}
			case *ssa.Convert:
				if !scalarType(in.Type()) || !scalarType(in.X.Type()) {
					return bad
				}
			case *ssa.ChangeType:
				if !scalarType(in.Type()) {
					return bad
				}
			case *ssa.If, *ssa.Jump, *ssa.Phi, *ssa.Return, *ssa.DebugRef:
			case *ssa.Call:
				callee := in.Call.StaticCallee()
				if callee == nil || in.Call.IsInvoke() || callee == fn {
					return bad
				}
				if pi := e.pureFunc(callee, depth+1); !pi.ok {
					return bad
				}
			default:
				return bad
			}
		}
	}
	if n > 120 {
		return bad
	}
	// topological order (fails on cycles)
	state := map[*ssa.BasicBlock]int{}
	var order []*ssa.BasicBlock
	var visit func(b *ssa.BasicBlock) bool
	visit = func(b *ssa.BasicBlock) bool {
		switch state[b] {
		case 1:
			return false
		case 2:
			return true
		}
		state[b] = 1
		for _, s := range b.Succs {
			if !visit(s) {
				return false
			}
		}
		state[b] = 2
		order = append(order, b)
		return true
	}
	if !visit(fn.Blocks[0]) {
		return bad
	}
	for i, j := 0, len(order)-1; i < j; i, j = i+1, j-1 {
		order[i], order[j] = order[j], order[i]
	}
	return &pureInfo{ok: true, order: order}
}

// tryPureCall evaluates fn(args) as one term when fn is mergeable and some argument is symbolic.
func (p *Path) tryPureCall(fn *ssa.Function, args []Value) (Value, bool) {
	anySym := false
	for _, a := range args {
		t, ok := a.(*Term)
		if !ok {
			return nil, false
		}
		if t.Op != OpConst {
			anySym = true
		}
	}
	if !anySym {
		return nil, false
	}
	pi := p.eng.pureFunc(fn, 0)
	if !pi.ok {
		return nil, false
	}
	return p.evalPure(fn, pi, args), true
}

func (p *Path) evalPure(fn *ssa.Function, pi *pureInfo, args []Value) *Term {
	st := p.st
	env := map[ssa.Value]*Term{}
	for i, par := range fn.Params {
		env[par] = args[i].(*Term)
	}
	get := func(v ssa.Value) *Term {
		if c, ok := v.(*ssa.Const); ok {
			return p.constValue(c).(*Term)
		}
		return env[v]
	}
	blockCond := map[*ssa.BasicBlock]*Term{fn.Blocks[0]: st.True}
	edgeCond := map[[2]*ssa.BasicBlock]*Term{}
	var result *Term
	for _, b := range pi.order {
		bc := blockCond[b]
		if bc == nil {
			bc = st.False
		}
		for _, in := range b.Instrs {
			switch in := in.(type) {
			case *ssa.Phi:
				var v *Term
				for i := len(in.Edges) - 1; i >= 0; i-- {
					ev := get(in.Edges[i])
					ec := edgeCond[[2]*ssa.BasicBlock{b.Preds[i], b}]
					if ec == nil {
						ec = st.False
					}
					if v == nil {
						v = ev
					} else {
						v = st.Ite(ec, ev, v)
					}
				}
				env[in] = v
			case *ssa.BinOp:
				env[in] = p.binop(nil, in.Pos(), in.Op, in.X.Type(), get(in.X), get(in.Y)).(*Term)
			case *ssa.UnOp:
				x := get(in.X)
				switch in.Op {
				case token.SUB:
					if _, _, isFloat, _ := basicInfo(in.X.Type()); isFloat {
						env[in] = st.FpNeg(x)
					} else {
						env[in] = st.Neg(x)
					}
				case token.NOT:
					env[in] = st.Not(x)
				case token.XOR:
					env[in] = st.BNot(x)
				}
			case *ssa.Convert:
				env[in] = p.conv(nil, in.Pos(), in.Type(), in.X.Type(), get(in.X)).(*Term)
			case *ssa.ChangeType:
				env[in] = get(in.X)
			case *ssa.Call:
				callee := in.Call.StaticCallee()
				cargs := make([]Value, len(in.Call.Args))
				for i, a := range in.Call.Args {
					cargs[i] = get(a)
				}
				env[in] = p.evalPure(callee, p.eng.pureFunc(callee, 1), cargs)
			case *ssa.If:
				c := get(in.Cond)
				edgeCond[[2]*ssa.BasicBlock{b, b.Succs[0]}] = orNil(st, edgeCond[[2]*ssa.BasicBlock{b, b.Succs[0]}], st.And(bc, c))
				edgeCond[[2]*ssa.BasicBlock{b, b.Succs[1]}] = orNil(st, edgeCond[[2]*ssa.BasicBlock{b, b.Succs[1]}], st.And(bc, st.Not(c)))
				blockCond[b.Succs[0]] = orNil(st, blockCond[b.Succs[0]], st.And(bc, c))
				blockCond[b.Succs[1]] = orNil(st, blockCond[b.Succs[1]], st.And(bc, st.Not(c)))
			case *ssa.Jump:
				edgeCond[[2]*ssa.BasicBlock{b, b.Succs[0]}] = orNil(st, edgeCond[[2]*ssa.BasicBlock{b, b.Succs[0]}], bc)
				blockCond[b.Succs[0]] = orNil(st, blockCond[b.Succs[0]], bc)
			case *ssa.Return:
				v := get(in.Results[0])
				if result == nil {
					result = v
				} else {
					result = st.Ite(bc, v, result)
				}
			}
		}
	}
	p.steps += 4
	return result
}

func orNil(st *Store, a, b *Term) *Term {
	if a == nil {
		return b
	}
	return st.Or(a, b)
}
