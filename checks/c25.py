from checks import c21

def run(tier):
    return c21.run(tier, prop="C25")
