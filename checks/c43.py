from checks.gencommon import *

def run(tier):
    return run_gen("C43", tier, "^VerifC43", **SPEC["C43"])
