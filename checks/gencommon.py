"""Shared driver for the generated-code properties (DESIGN.md §5.2, §6.0)."""
from vlib.gen import *

# types that come from the shared prelude: exercised once (with f01), skipped elsewhere
PRELUDE = ["Int", "Long", "Float", "Double", "String", "True", "Bool", "BoolBytes", "StringBytes", "IntBytes"]

R_QUICK = ["cases.tl"]
R_THOROUGH = ["cases.tl", "goldmaster.tl", "goldmaster2.tl", "goldmaster3.tl", "schema.tl", "cpp.tl"]


def run_gen(prop, tier, regex, regex_q=None, props=None, optsets=("full",), params_q=None, params_t=None, level="model_checking", f_pattern="*",
            r_quick=(), r_thorough=(), wall_q="8s", wall_t="300s", bounds=None, outside=None, assumptions=(), only=None, max_models_q=6, max_models_t=30,
            max_paths_q=1200, max_paths_t=60000, hgen_extra=(), ladder=None, ladder_q=None, prim=None, pkg_harness=None, extra_runs=(), finish=True):
    c = GenCheck(prop, tier, level)
    if tier == "quick" and regex_q:
        regex = regex_q
    params = dict(params_q or {}) if tier == "quick" else dict(params_t or params_q or {})
    f_pattern = os.environ.get("VERIF_F_PATTERN") or f_pattern  # development aid: restrict the feature corpus
    corpus = corpus_f(f_pattern) + corpus_r(list(r_quick) if tier == "quick" else list(r_thorough))
    for idx, (key, schemas) in enumerate(corpus):
        for on in optsets:
            if schemas[0].endswith(".tl2") and on == "default":
                continue
            skip = None if key == "f01" else PRELUDE
            c.run_schema(key, schemas, on, props or [prop], regex, params=params, skip=skip, only=only, hgen_extra=hgen_extra, ladder=(ladder_q if (tier == "quick" and ladder_q is not None) else ladder) or (),
                         wall=wall_q if tier == "quick" else wall_t,
                         # quick: passing-path models are replayed natively for a rotating third of the corpus (violations are always replayed)
                         max_models=(max_models_q if (idx + c.seed) % 3 == 0 else 0) if tier == "quick" else max_models_t,
                         max_paths=max_paths_q if tier == "quick" else max_paths_t)
    if prim:
        # primitive-level obligations of pkg/basictl this property relies on, decided for ALL lengths (shared with C33)
        hdir = os.path.join(VERIF, "harness", "basictl")
        files = [os.path.join(hdir, f) for f in sorted(os.listdir(hdir)) if f.startswith("zz_verif_c33")]
        c.run_pkg(REPO, "./pkg/basictl", os.path.join(REPO, "pkg/basictl"), "basictl", files, prim, params={"strlen": 8, "bits": 17, "maxalloc": 64},
                  max_models=6, label="pkg/basictl")
        c.assumptions.append("generated code reaches strings/sizes/Bool only through pkg/basictl primitives; their obligations (%s) are decided on buffers of symbolic length up to 2^57" % prim)
    for er in extra_runs:
        # further harness files on one generated schema (shared with another property's check)
        c.run_schema(er["key"], [os.path.join(VERIF, "schemas", er.get("dir", "f"), er["schema"])], er.get("optname", "full"), er["props"], er["regex"], params=er["params_q"] if tier == "quick" else er["params_t"],
                     libs=[LIB] + [os.path.join(VERIF, "harness", "gen", l) for l in er["libs"]], only=er.get("only"), skip=er.get("skip"), wall=er.get("wall_q", "120s") if tier == "quick" else er.get("wall_t", "900s"),
                     max_models=6, max_paths=400000)
        c.assumptions.append(er["text"])
    if pkg_harness:
        # obligations on a repository package itself (harness injected by overlay)
        ph = pkg_harness
        c.run_pkg(REPO, "./" + ph["pkg"], os.path.join(REPO, ph["pkg"]), ph["pkgname"], [os.path.join(VERIF, f) for f in ph["files"]], ph["regex"],
                  params=ph["params_q"] if tier == "quick" else ph["params_t"], max_models=6, label=ph["pkg"], wall="60s" if tier == "quick" else "600s", soft_trunc="record")
        c.assumptions.append(ph["text"])
    c.assumptions += list(assumptions)
    b = dict(bounds or {})
    b.update(params)
    if not finish:
        c._finish_kw = dict(bounds=b, outside=outside or [])
        return c
    return c.finish(bounds=b, outside=outside or [])

BYTES_BOUNDS = {"input": "arbitrary byte string of symbolic length <= (encoded size of the zero value + slack), capped at maxN"}
VAL_BOUNDS = {"value": "arbitrary value of the Go type: scalars/masks symbolic over their full range; slices/maps <= L elements, strings <= S symbolic bytes, sum of all lengths <= B; recursion depth <= D"}
VAL_Q = {"D": 2, "L": 2, "S": 2, "B": 3}
VAL_T = {"D": 3, "L": 3, "S": 3, "B": 4}
VAL_LADDER = [{"B": 2}, {"B": 2, "D": 1}, {"B": 1, "D": 1}]
BYTES_Q = {"slack": 8, "maxN": 40, "D": 2, "L": 2, "S": 2, "B": 3}
BYTES_T = {"slack": 16, "maxN": 96, "D": 2, "L": 2, "S": 2, "B": 3}
BYTES_LADDER = [{"slack": 0}]
OUT_COMMON = ["inputs/values beyond the stated bounds", "schemas outside the corpus", "--split-internal layout"]

SPEC = {
    "C02": dict(params_q=BYTES_Q, params_t=BYTES_T, ladder=BYTES_LADDER, bounds=BYTES_BOUNDS, outside=OUT_COMMON, r_thorough=R_THOROUGH,
                optsets=("full", "default"), prim="^VerifC33(StringReadAny|StringReadBytesAny|ReadBool|NatReadExactTag|PrimReadAny)$"),
    "C03": dict(prim="^VerifC33(TL2Size|TL2ParseSizeAny|StringReadTL2Any|StringTL2RoundTrip|BitVector)$", params_q=BYTES_Q, params_t=BYTES_T, ladder=BYTES_LADDER + VAL_LADDER, bounds=dict(BYTES_BOUNDS, **VAL_BOUNDS), outside=OUT_COMMON, r_thorough=R_THOROUGH),
    "C04": dict(params_q=BYTES_Q, params_t=BYTES_T, ladder=BYTES_LADDER, bounds=BYTES_BOUNDS, outside=OUT_COMMON + ["JSON equality leg for types with float leaves"], r_thorough=R_THOROUGH),
    "C08": dict(prim="^VerifC33(StringReadAny|StringReadBytesAny|StringReadTL2Any|TL2ParseSizeAny|Skip|PrimReadAny)$", params_q=dict(BYTES_Q, slack8=8), params_t=dict(BYTES_T, slack8=16), ladder=[{"slack8": 0}, {"slack8": 0, "slack": 4}], bounds=BYTES_BOUNDS,
                outside=OUT_COMMON + ["JSON readers and result transcoders"], r_thorough=R_THOROUGH),
    "C09": dict(params_q=dict(BYTES_Q, slack=4, slack1=0), params_t=dict(BYTES_T, slack=8, slack1=4), ladder=[{"slack": 0, "slack1": 0}] + VAL_LADDER,
                bounds=dict(BYTES_BOUNDS, **VAL_BOUNDS), outside=OUT_COMMON + ["JSON as the second decode"], r_thorough=R_THOROUGH),
    "C10": dict(params_q=BYTES_Q, params_t=BYTES_T, ladder=BYTES_LADDER, bounds=BYTES_BOUNDS, outside=OUT_COMMON + ["JSON reader"], level="translation_validation", r_thorough=R_THOROUGH),
    "C17": dict(params_q=dict(VAL_Q, D=1), params_t=VAL_Q, ladder=VAL_LADDER, bounds=VAL_BOUNDS, outside=OUT_COMMON, r_thorough=R_THOROUGH),
}

J_Q = {"D": 1, "L": 2, "S": 1, "B": 1, "pool": 1}
J_T = {"D": 2, "L": 2, "S": 2, "B": 2, "pool": 4, "extrabit": 1}
SPEC["C09"] = dict(regex_q="^VerifC09(f|ft2|j|reset)_", hgen_extra=["-jmode"], params_q=dict(BYTES_Q, slack=4, slack1=0, **J_Q), params_t=dict(BYTES_T, slack=8, slack1=4, **J_T),
                   ladder=[{"slack": 0, "slack1": 0}], bounds=dict(BYTES_BOUNDS, **VAL_BOUNDS),
                   outside=OUT_COMMON + ["JSON text that the generated writer does not produce, as the second decode"], r_thorough=R_QUICK,
                   assumptions=["dirty objects: (a) whatever a first decode of arbitrary bytes leaves behind (success or failure), (b) one fully populated value per type (every optional part present), (c) an arbitrary value followed by Reset"])
JSON_STRINGS = dict(key="f01", schema="f01_scalars.tl", props=["C34"], regex="^VerifC34(String|StringBytes)$", params_q={"jstrlen": 3}, params_t={"jstrlen": 4}, libs=["zz_verif_c34.go"], only=["True"],
                    wall_q="300s", wall_t="1800s",
                    text="string leaves beyond the value bound: the JSON string writers of pkg/basictl (string and []byte versions, which generated code calls for every string leaf and dictionary key) on EVERY byte string of <= jstrlen bytes: valid JSON, reads back identically through the generated Json2ReadString/Json2ReadStringBytes, both versions emit the same bytes (harness shared with C34)")
SPEC["C08"]["extra_runs"] = [dict(key="g01", dir="g", schema="g01_zero_width.tl", props=["C08"], regex="^VerifC08", params_q=dict(BYTES_Q, slack8=8), params_t=dict(BYTES_T, slack8=16), libs=[], skip=PRELUDE, wall_q="60s", wall_t="600s",
                                  text="extra schema schemas/g/g01_zero_width.tl: vectors and nat-sized tuples whose elements can be zero bytes wide (tuple int m with m = 0, %True) - the shape in which the minimum-element-size argument of the length sanity check matters")]
SPEC["C03"]["extra_runs"] = [dict(key="f07", schema="f07_dicts.tl", props=["C03"], regex="^VerifC03x_", params_q={}, params_t={}, libs=["zz_verif_c03_f07.go"], only=["F07VecDict"], wall_q="60s", wall_t="300s",
                                  text="typed case f07.vecDict: dictionaries whose values own memory (vectors, nested dictionaries) with two entries, symbolic keys and elements (entries must not alias after reading)")]
SPEC["C10"]["extra_runs"] = [dict(JSON_STRINGS, regex="^VerifC34StringBytes$")]
SPEC["C18"] = dict(params_q={"L": 2, "rlow": 1}, params_t={"L": 3, "rlow": 99}, ladder=[{"rlow": 1}, {"rlow": 0, "L": 1}], ladder_q=[{"rlow": 0, "L": 1}],
                   bounds={"rand": "ANY output sequence of the Rand source (every draw a fresh symbolic 64-bit value): strictly more than all seeds", "sizes": "SizeHandler = x mod (L+1)",
                           "rlow": "when < 32: every draw is assumed to be <= rlow modulo 32 (keeps RandomString short; its length is not under SizeHandler control)"},
                   outside=OUT_COMMON + ["JSON writer on random values (numbers symbolic)", "collection sizes above L"], r_thorough=R_QUICK,
                   pkg_harness=dict(pkg="pkg/basictl", pkgname="basictl", files=["harness/basictl/zz_verif_c18.go"], regex="^VerifC18Depth$", params_q={"K": 12}, params_t={"K": 18},
                                    text="termination of recursive types: generated FillRandom brackets nested containers / recursive fields in IncreaseDepth..DecreaseDepth; decided on pkg/basictl: for every well-nested sequence of <= K Increase/Decrease calls, every maxDepth (2..5) and every Rand output, at a true nesting level >= maxDepth RandomSize and RandomFieldMask return 0 without drawing"))
SPEC["C43"] = dict(params_q={"D": 1, "L": 1, "S": 1, "B": 1}, params_t={"D": 2, "L": 2, "S": 2, "B": 2}, ladder=[{"B": 0}],
                   bounds=VAL_BOUNDS, outside=OUT_COMMON + ["JSON leg of presence (see C05 for the JSON writer/reader agreement)"], r_thorough=R_QUICK,
                   assumptions=["object states are normalised by the generated RepairMasks (API-reachable presence state)",
                                "frame condition is observed on the TL1/TL2 encodings with the accessed field cleared on both sides"])

SPEC["C07"] = dict(params_q={"D": 1, "L": 1, "S": 1, "B": 1, "resN": 8, "json": 1}, params_t={"D": 1, "L": 2, "S": 2, "B": 2, "resN": 14, "json": 1}, ladder=[{"resN": 4}],
                   f_pattern="f09*", bounds={"request": "arbitrary request value (its # fields shape the result), sum of lengths <= B", "result": "arbitrary result bytes of symbolic length <= resN"},
                   outside=OUT_COMMON + ["functions of schemas other than schemas/f/f09_functions.tl and the thorough-tier repository schemas"], r_thorough=R_QUICK,
                   assumptions=["JSON numbers of symbolic results go through the decimal contract; typed path = generated ReadResultX into the typed result + WriteResultY"])
SPEC["C43"]["extra_runs"] = [dict(key="f03", schema="f03_outermask.tl", props=["C43"], regex="^VerifC43x_", params_q={"D": 1, "L": 1, "S": 1, "B": 1}, params_t={"D": 1, "L": 2, "S": 1, "B": 2}, libs=["zz_verif_c43_f03.go"], only=["F03Outer"], wall_q="60s", wall_t="300s",
                                  text="typed case f03.outer/f03.inner: accessors of fields under an EXTERNAL field mask, called with the owner's mask and with a nil mask pointer")]
