from vlib.gen import *

def run(tier):
    c = GenCheck("C13", tier)
    q = tier == "quick"
    libs = [LIB, os.path.join(VERIF, "harness", "gen", "zz_verif_c13.go")]
    schema = os.path.join(VERIF, "schemas", "p", "p1_evolution.tl2")
    params = {"N": 8} if q else {"N": 13}
    c.run_schema("p1", [schema], "tl2only", ["C13"], "^VerifC13", params=params, libs=libs, only=["True"], wall="60s" if q else "900s", max_models=8 if q else 30, max_paths=200000)
    c.assumptions += ["values range over everything the generated readers decode from <= N arbitrary bytes; top-level objects up to 253 bytes",
                      "schema pair = one TL2 file with old.* and new.* versions of the same types (new = old + appended fields / appended union variant)",
                      "re-encodings are applied to the top-level object: huge-form size, explicit zero presence byte for the empty object, value-preserving zero padding after the last field, size beyond input"]
    return c.finish(bounds=params, outside=["re-encodings of nested objects", "schema pairs other than schemas/p/p1_evolution.tl2", "medium-form sizes (they cannot encode small values)"])
