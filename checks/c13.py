from vlib.gen import *

def run(tier):
    c = GenCheck("C13", tier)
    q = tier == "quick"
    hd = os.path.join(VERIF, "harness", "gen")
    libs = [LIB, os.path.join(hd, "zz_verif_c13.go"), os.path.join(hd, "zz_verif_c11_lib.go"), os.path.join(hd, "zz_verif_c13re.go")]
    schema = os.path.join(VERIF, "schemas", "p", "p1_evolution.tl2")
    params = {"N": 8, "D": 1, "L": 1, "S": 1, "B": 2} if q else {"N": 13, "D": 2, "L": 2, "S": 2, "B": 4}
    c.run_schema("p1", [schema], "tl2only", ["C13"], "^VerifC13", params=params, libs=libs, wall="60s" if q else "900s", max_models=8 if q else 30, max_paths=200000)
    c.assumptions += ["values range over everything the generated readers decode from <= N arbitrary bytes; top-level objects up to 253 bytes",
                      "schema pair = one TL2 file with old.* and new.* versions of the same types (new = old + appended fields / appended union variant)",
                      "top-level re-encodings (VerifC13Reencode): huge-form size, explicit zero presence byte for the empty object, value-preserving zero padding after the last field, size beyond input",
                      "nested re-encodings (VerifC13Nested_*): a schema-directed re-encoder (harness/gen/zz_verif_c13re.go, hand-written wire shapes of old.deep, old.box, new.box, old.opt, old.color) rewrites the minimal encoding of every bounded value with one non-minimal choice at every site of the nesting: any size-like integer (object size, string length, element count, union constructor number) in huge form, all of them in huge form, an empty nested object as an explicit zero presence byte, unknown trailing bytes (with or without their presence bit) inside a nested object; enclosing sizes recomputed",
                      "values of the nested harnesses: hgen arbitrary-value constructors under D/L/S/B (depth, slice length, string length, total length budget)"]
    return c.finish(bounds=params, outside=["two or more independent non-minimal choices in one encoding (other than all-sizes-huge)", "types without a hand-written wire shape", "schema pairs other than schemas/p/p1_evolution.tl2", "medium-form sizes (they cannot encode small values)"])
