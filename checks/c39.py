from vlib.core import *

def run(tier):
    c = Check("C39", tier)
    q = tier == "quick"
    params = {"G": 3, "maxWorkers": 2, "preempt": 0} if q else {"G": 3, "maxWorkers": 2, "preempt": 1}
    f = [os.path.join(VERIF, "harness/rpc/zz_verif_c39.go")]
    c.run_pkg(REPO, "./pkg/rpc", os.path.join(REPO, "pkg/rpc"), "rpc", f, "^VerifC39PoolStep$", params=params, max_models=8 if q else 30, wall="600s")
    c.run_pkg(REPO, "./pkg/rpc", os.path.join(REPO, "pkg/rpc"), "rpc", f, "^VerifC39(Pool|Memory)$", params=params, max_models=0, wall="120s" if q else "3600s", soft_trunc="record", engine_only=True, extra_flags=["-stub", "(*github.com/VKCOM/tl/pkg/rpc.Server).rareLog", "-stub", "github.com/VKCOM/tl/pkg/rpc.humanByteCountIEC"])
    c.assumptions += ["REDUCED SCOPE: the admission data structures only (workerPool Get/Put/GC/Close, acquireRequestSema/releaseRequestBuf over semaphore.Weighted); the receive/send loops, sockets and the Go scheduler are outside",
                      "cooperative scheduler: interleavings at synchronisation operations, <= preempt involuntary switches per path; concurrent harnesses are engine-only",
                      "time.Now returns arbitrary non-decreasing instants", "logging is stubbed: (*Server).rareLog and humanByteCountIEC have empty bodies (rate-limited log lines, not part of admission)"]
    return c.finish(bounds=params, outside=["end-to-end behaviour of a running server under load", "more than G concurrent requests", "data races"])
