from vlib.core import *

def run(tier):
    c = Check("C41", tier)
    q = tier == "quick"
    params = {"H": 3, "K": 4, "caplog": 2, "CK": 4} if q else {"H": 4, "K": 6, "caplog": 3, "CK": 8}
    c.run_pkg(REPO, "./internal/vkgo/pkg/algo", os.path.join(REPO, "internal/vkgo/pkg/algo"), "algo", [os.path.join(VERIF, "harness/algo/zz_verif_c41.go")],
              "^VerifC41(TreeStep|TreeHistory|CircStep|CircHistory)$", params=params, max_models=12 if q else 60, wall="600s" if q else "3600s")
    # deletions from height-4 trees (the rotation case insertions never produce needs height 4): a time-boxed slice in the quick tier
    c.run_pkg(REPO, "./internal/vkgo/pkg/algo", os.path.join(REPO, "internal/vkgo/pkg/algo"), "algo", [os.path.join(VERIF, "harness/algo/zz_verif_c41.go")],
              "^VerifC41TreeDeleteStep$", params=dict(params, HD=4), max_models=4, wall="120s" if q else "3600s", soft_trunc="record")
    # the structural half of the same step without observer probes: exhaustive over all 315 height-4 shapes in both tiers
    c.run_pkg(REPO, "./internal/vkgo/pkg/algo", os.path.join(REPO, "internal/vkgo/pkg/algo"), "algo", [os.path.join(VERIF, "harness/algo/zz_verif_c41.go")],
              "^VerifC41TreeDeleteShape$", params=dict(params, HD=4), max_models=4, wall="400s" if q else "3600s", soft_trunc="record")
    if not q:
        c.run_pkg(REPO, "./internal/vkgo/pkg/algo", os.path.join(REPO, "internal/vkgo/pkg/algo"), "algo", [os.path.join(VERIF, "harness/algo/zz_verif_c41.go")],
                  "^VerifC41TreeDeleteShape$", params=dict(params, HD=5), max_models=4, wall="3600s", soft_trunc="record", label="delete-shape-h5")
    c.assumptions += ["VerifC41TreeDeleteShape: one Delete of any key from ANY AVL tree of height exactly 4 (5 in the thorough tier, time-boxed), checking balance, exact heights, in-order contents and allocation accounting (no observer probes)", "inductive step: pre-state is ANY AVL tree of height <= H (all shapes enumerated, keys symbolic, only BST order + exact heights assumed); comparator is int32 <",
                      "VerifC41TreeDeleteStep: one Delete from an arbitrary AVL tree of height exactly 4 (time-boxed slice in the quick tier, exhaustive in the thorough tier)", "circular slice pre-state: ANY capacity in {0,1,2,4,..2^caplog}, any read/write positions satisfying the documented invariant, symbolic contents",
                      "Index/IndexRef are only called with 0 <= pos < Len or pos < 0 (out-of-range positive positions are outside the property)"]
    return c.finish(bounds=params, outside=["trees higher than H before the step", "histories longer than K / CK operations", "capacities above 2^caplog", "element types other than int32"])
