from checks.gencommon import *

def run(tier):
    return run_gen("C02", tier, "^VerifC02", **SPEC["C02"])
