from checks.gencommon import *

def run(tier):
    return run_gen("C01", tier, "^VerifC01", params_q={"D": 2, "L": 2, "S": 2, "B": 3}, params_t={"D": 3, "L": 3, "S": 3, "B": 4},
                   ladder=[{"B": 2}, {"B": 2, "D": 1}, {"B": 1, "D": 1}],
                   optsets=("full", "default"), prim="^VerifC33(StringWriteLen|StringRoundTrip|StringBytesRoundTrip|NatRoundTrip|PrimRoundTrip)$", r_quick=(), r_thorough=R_THOROUGH,
                   bounds={"value": "arbitrary value of the Go type: every scalar/mask symbolic over its full range; slices/maps <= L elements and strings <= S symbolic bytes with the SUM of all lengths <= B; recursion depth <= D"},
                   outside=["larger values (string length classes are decided in C33)", "deeper recursion", "schemas outside the corpus", "--split-internal layout"],
                   assumptions=["unions are built through their generated ResetTo* API (only valid variant indices)"])
