from vlib.gen import *

TYPED = [("f01", "f01_scalars.tl", "zz_verif_c11_f01.go"), ("f02", "f02_localmask.tl", "zz_verif_c11_f02.go"), ("f04", "f04_arrays.tl", "zz_verif_c11_f04.go"),
         ("f06", "f06_maybe.tl", "zz_verif_c11_f06.go"), ("f20", "f20_tl2_basic.tl2", "zz_verif_c11_f20.go")]

def run(tier):
    c = GenCheck("C11", tier, "translation_validation")
    q = tier == "quick"
    hdir = os.path.join(VERIF, "harness", "gen")
    params = {"D": 1, "L": 2, "S": 2, "B": 2} if q else {"D": 2, "L": 3, "S": 4, "B": 4}
    pat = os.environ.get("VERIF_F_PATTERN")
    for key, sname, hf in TYPED:
        if pat and not key.startswith(pat.rstrip("*")):
            continue
        libs = [LIB, os.path.join(hdir, "zz_verif_c11_lib.go"), os.path.join(hdir, hf)]
        c.run_schema(key, [os.path.join(VERIF, "schemas", "f", sname)], "tl2only", ["C01"], "^VerifC11_", params=params, libs=libs,
                     wall="30s" if q else "600s", max_models=6 if q else 30, max_paths=4000 if q else 100000, soft_trunc="record")
    c.assumptions += ["reference = hand-written encoders (harness/gen/zz_verif_c11_*.go) written from the primers for f01.scalars, f02.local, f04.arrays, f06.maybes (TL1) and f20.user/f20.point (TL2): little-endian primitives, TL1 string length forms and padding, boxed tag = tag + bare, local field masks, %True zero width, nat-sized and counted arrays, Maybe tags, Bool tags; TL2 varlen sizes, presence bytes with the variant-index bit, zero-value elision of required fields, optional fields, bit fields, nested objects, trailing-empty truncation",
                      "three obligations per type: generated writer == reference on every value; reader accepts the reference bytes and reproduces the value; every accepted input is (TL1) / decodes to a value written as (TL2) the reference encoding"]
    return c.finish(bounds=params, outside=["types without a hand-written reference", "unions and dictionaries (covered by C01/C02/C10 round trips only)", "TL2 arrays"])
