from checks.gencommon import *

def run(tier):
    return run_gen("C07", tier, "^VerifC07", **SPEC["C07"])
