from vlib.core import *

SPEC = {
    "C21": ("^VerifC21RoundTrip$", "print -> parse -> compare of skeleton schemas in which EVERY number (explicit tags: all 2^32 values; mask bits 0..31; arithmetic constants) is symbolic; text produced by the real quicktemplate printer, numbers through exact %08x / decimal-contract models"),
    "C23": ("^VerifC23Tags$", "implicit tag == CRC32(canonical form) with CRC32 an uninterpreted function of the byte sequence (so layout independence holds for any checksum), explicit tags verbatim; relayout = varied whitespace / comments / line breaks between all tokens of the printed form"),
    "C25": ("^VerifC25(Canonical|Listing)$", "canonical listing line per combinator: carries #%08x of the effective tag (decoded from the line, all tag values), re-parses to the same combinator when terminated"),
}

def run(tier, prop="C21"):
    c = Check(prop, tier)
    q = tier == "quick"
    f = [os.path.join(VERIF, "harness/tlast/zz_verif_c21.go")]
    params = {"maxnum": 99, "skel": -1} if q else {"maxnum": 0, "skel": -1}
    rx, text = SPEC[prop]
    c.run_pkg(REPO, "./internal/tlast", os.path.join(REPO, "internal/tlast"), "tlast", f, rx, params=params, max_models=10 if q else 40, wall="60s" if q else "900s", soft_trunc="record")
    c.assumptions += [text, "identifier names are the concrete names of the built-in skeleton schemas (harness/tlast/zz_verif_c21.go); arithmetic constants <= maxnum when maxnum > 0 (one path per digit count)",
                      "hash/crc32 on symbolic bytes is an uninterpreted function; that it is CRC-32/IEEE is evaluated natively on the concrete repository schemas by the existing tests"]
    return c.finish(bounds=params, outside=["schemas other than the skeletons", "symbolic identifier names", "TL2"])
