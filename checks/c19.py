from vlib.core import *

def run(tier, prop="C19", lang="C19"):
    c = Check(prop, tier)
    q = tier == "quick"
    f = [os.path.join(VERIF, "harness/tlast/zz_verif_c19.go")]
    params = {"lexN": 3, "ins": 1, "printN": 1, "skel": c.seed % 6, "tailN": 1} if q else {"lexN": 4, "ins": 2, "printN": 2, "skel": -1, "tailN": 3}
    rx = "^Verif%s(Lexer|ParseMutated|ParseTail|ParseTruncated)$" % lang if prop == "C20" else "^VerifC19(Lexer|ParseMutated|ParseTail|PrintError|ParseTruncated)$"
    c.run_pkg(REPO, "./internal/tlast", os.path.join(REPO, "internal/tlast"), "tlast", f, rx, params=params, max_models=10 if q else 40,
              wall="90s" if q else "900s", soft_trunc="record")
    c.assumptions += ["lexer: EVERY byte string up to lexN bytes; parser: valid skeleton schemas with one byte substituted by any of the 256 values, <= ins arbitrary bytes inserted, or truncated, at every position",
                      "parser contexts: a valid prefix that puts the parser into each of its states (list in harness/tlast/zz_verif_c19.go), then EVERY byte string of <= tailN bytes, then an optional valid ending",
                      "ParseTruncated: every prefix of every skeleton (all skeletons in both tiers)",
                      "error printing: arbitrary (also inconsistent) offsets over a text of <= printN bytes; output is discarded (fmt.Fprintf stubbed)"]
    return c.finish(bounds=params, outside=["longer arbitrary texts (the lexer is a one-token-at-a-time loop over the remaining string)", "mutations of more than ins+1 bytes at once", "skeletons other than the built-in ones"])
