from vlib.core import *

def run(tier):
    c = Check("C26", tier)
    q = tier == "quick"
    f = [os.path.join(VERIF, "harness/tlast/zz_verif_c26.go")]
    c.run_pkg(REPO, "./internal/tlast", os.path.join(REPO, "internal/tlast"), "tlast", f, "^VerifC26TLO$", params={"skel": -1}, max_models=8 if q else 30, wall="120s" if q else "900s", soft_trunc="record")
    c.assumptions += ["schema skeletons (harness/tlast/zz_verif_c26.go: unions, templates with # and Type parameters in both orders, masks, ! fields, functions with annotations) with ALL constructor tags and the version symbolic (tags assumed non-zero and pairwise distinct, as C24 guarantees for accepted schemas)",
                      "the TLO bytes are compared through the generated tltls WriteTL1Boxed/ReadTL1Boxed (their round trip, not an external TLO reader)"]
    return c.finish(bounds={"tags": "all 2^32 values each", "version": "all non-zero values"}, outside=["schemas other than the skeletons", "the builtin wrapper combinators' fixed entries", "version 0 (current time)"])
