from checks.gencommon import *

def run(tier):
    return run_gen("C18", tier, "^VerifC18", **SPEC["C18"])
