from checks.gencommon import *

def run(tier):
    return run_gen("C03", tier, "^VerifC03", **SPEC["C03"])
