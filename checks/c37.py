from vlib.core import *

def run(tier):
    c = Check("C37", tier)
    hdir = os.path.join(VERIF, "harness", "udp")
    files = [os.path.join(hdir, f) for f in sorted(os.listdir(hdir)) if f.startswith("zz_verif_c37")]
    params = {"nodes": 3, "ops": 3, "ackwidth": 2} if tier == "quick" else {"nodes": 4, "ops": 5, "ackwidth": 4}
    c.run_pkg(REPO, "./pkg/rpc/udp", os.path.join(REPO, "pkg/rpc/udp"), "udp", files, "^VerifC37", params=params,
              max_models=15 if tier == "quick" else 100)
    c.assumptions += ["inductive step: pre-state is ANY list of <= nodes ranges satisfying the representation invariant (prefix < from_1, from_i <= to_i, to_i+1 < from_{i+1}, to_i < 2^32-1); ranges f <= t < 2^32-1 (wrap-free, as the property states)",
                      "BuildAck: ranges after the first are at most `ackwidth` wide (they are expanded element-wise)"]
    return c.finish(bounds=dict(params), outside=["lists longer than %d nodes before the step" % params["nodes"], "sequence numbers at 2^32-1 (wrap)", "AckSet expansion of ranges wider than %d" % params["ackwidth"]])
