from vlib.gen import *
import re

SCHEMAS = ["f02_localmask.tl", "f05_unions.tl", "f06_maybe.tl", "f04_arrays.tl"]

def types_with_tl2(pkgdir):
    names = set()
    for fn in os.listdir(pkgdir):
        if fn.endswith(".go") and not fn.startswith("zz_"):
            txt = open(os.path.join(pkgdir, fn)).read()
            for m in re.finditer(r"^func \(item \*(\w+)\) ReadTL2\(r \[\]byte, tctx \*basictl\.TL2ReadContext\)", txt, re.M):
                names.add(m.group(1))
    return names

def run(tier):
    c = GenCheck("C27", tier, "translation_validation")
    q = tier == "quick"
    pat = os.environ.get("VERIF_F_PATTERN")
    todo = [s for s in SCHEMAS if not pat or s.startswith(pat.rstrip("*"))]
    if q:
        todo = todo[:2] if not pat else todo
    for sname in todo:
        key = sname.split("_")[0]
        src = os.path.join(VERIF, "schemas", "f", sname)
        if not c.tl2gen:
            break
        # 1. migrate a copy of the schema in place with the real migration (tl2gen --language=tl2migration)
        mdir = os.path.dirname(c.scratch.path("mig_" + key, "x"))
        shutil.copy(src, os.path.join(mdir, "s.tl"))
        rc, txt = sh([c.tl2gen, "--language=tl2migration", "--tl2WhiteList=*", "--outdir=" + os.path.join(mdir, "out"), os.path.join(mdir, "s.tl")], cwd=mdir)
        if rc != 0 or not os.path.exists(os.path.join(mdir, "s.tl2")):
            c.problems.append("migration failed for %s: %s" % (sname, txt[-400:]))
            continue
        migrated = [os.path.join(mdir, "s.tl"), os.path.join(mdir, "s.tl2")]
        # 2. original (A) and migrated (B, nested so that its harness can import A)
        akey, bkey = "mig%s" % key, "mig%s/gen/newer" % key
        apkg, txt = generate(c.tl2gen, c.mod, akey, [src], OPTSETS["tl2only"])
        if not apkg:
            c.problems.append("generation failed for the original %s: %s" % (sname, txt[-400:]))
            continue
        bpkg, txt = generate(c.tl2gen, c.mod, bkey, migrated, OPTSETS["tl2only"])
        if not bpkg:
            # the migrated schema must compile: a schema the generator rejects is a violation of "the migrated schema compiles"
            c.problems.append("MIGRATED SCHEMA REJECTED by the generator for %s: %s" % (sname, txt[-600:]))
            continue
        common = sorted((types_with_tl2(apkg) & types_with_tl2(bpkg)) - {"Float", "Double", "Int", "Long", "String", "True", "Bool"})
        pairs = c.scratch.path("pairs_" + key, "zz_verif_c27_pairs.go")
        with open(pairs, "w") as f:
            f.write('//go:build verif\n\npackage internal\n\nimport orig "vmod/%s/gen/internal"\n\nvar verifMigPairs = []verifMigPair{\n' % akey)
            for n in common:
                f.write('\t{"%s", func() interface{} { return new(orig.%s) }, func() interface{} { return new(%s) }},\n' % (n, n, n))
            f.write("}\n\n")
            for i, n in enumerate(common):
                f.write("func VerifC27_%s() { verifC27Pair(verifMigPairs[%d]) }\n" % (n, i))
        libs = [LIB, os.path.join(VERIF, "harness", "gen", "zz_verif_c27.go"), pairs]
        params = {"N": 10} if q else {"N": 20}
        c.run_schema(bkey, migrated, "tl2only", ["C27"], "^VerifC27", params=params, libs=libs, only=["True"], rawkey=True, extra_gen=[(akey, [src], "tl2only")],
                     wall="10s" if q else "300s", max_models=4 if q else 20, max_paths=3000 if q else 100000, soft_trunc="record")
        c.extra.setdefault("migrated_types", {})[sname] = common
    c.assumptions += ["migration = the real tl2gen --language=tl2migration --tl2WhiteList=* run on a copy of each corpus schema; 'compiles' = tl2gen accepts the migrated files and the generated package type-checks (the engine loads it)",
                      "values = everything both generated readers decode from <= N arbitrary TL2 bytes; JSON text compared byte for byte (numbers through the shared decimal contract)"]
    return c.finish(bounds={"N": 10 if q else 20}, outside=["whitelists other than *", "schemas outside " + ", ".join(SCHEMAS), "functions' result types"])
