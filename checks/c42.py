from vlib.core import *

def run(tier):
    c = Check("C42", tier)
    q = tier == "quick"
    params = {"W": 2, "K": 1, "preempt": 1} if q else {"W": 2, "K": 2, "preempt": 2}
    pk = "internal/vkgo/pkg/semaphore"
    c.run_pkg(REPO, "./" + pk, os.path.join(REPO, pk), "semaphore", [os.path.join(VERIF, "harness/semaphore/zz_verif_c42.go")], "^VerifC42(Steps|Hooked)$", params=params,
              max_models=8 if q else 30, wall="120s" if q else "3600s", soft_trunc="record", extra_flags=["-solver", "cvc5-int"])
    c.run_pkg(REPO, "./" + pk, os.path.join(REPO, pk), "semaphore", [os.path.join(VERIF, "harness/semaphore/zz_verif_c42.go")], "^VerifC42Racy$", params=params,
              max_models=0, wall="120s" if q else "3600s", soft_trunc="record", engine_only=True, extra_flags=["-solver", "cvc5-int"])
    c.assumptions += ["cooperative scheduler: goroutines interleave only at synchronisation operations (mutex, channel, select) — exact for code that follows its lock discipline; data races are outside (WaitEmpty reads size unlocked and is not one of the property's operations)",
                      "weights and sizes range over all values in [0, 2^40)", "primary solver of this check: cvc5 1.0 --incremental --solve-bv-as-int=sum (exact integer encoding of the 64-bit arithmetic; bit-blasting solvers time out on the sums of weights)", "context cancellation is a harness context whose Done channel is closed by the harness",
                      "VerifC42Hooked makes the cancellation race deterministic: the competing Release/SetSize runs from inside the harness context's Err()/Done() methods, i.e. exactly between the waiter's wake-up and its re-locking (or right after it queued itself); replayed natively",
                      "at most `preempt` involuntary context switches per path; VerifC42Racy is checked in the engine only (a native run cannot be forced onto a given schedule)"]
    return c.finish(bounds=params, outside=["more than W concurrent waiters / K operations", "more preemptions than the bound", "WaitEmpty", "data races"])
