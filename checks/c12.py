from vlib.gen import *

def run(tier):
    c = Check("C12", tier, "translation_validation")
    q = tier == "quick"
    schema = os.path.join(VERIF, "schemas", "p", "c12.tl")
    try:
        tl2gen, mod = setup_module(c.scratch)
    except Exception as e:
        c.problems.append("cannot build tl2gen: %s" % str(e)[-400:])
        return c.finish()
    out = c.scratch.path("c12gen", "x")
    out = os.path.dirname(out)
    base = "github.com/VKCOM/tl/internal/pure/onthefly/zzgen"
    rc, txt = sh([tl2gen, "--language=go", "--outdir=" + os.path.join(out, "gen"), "--pkgPath=vmod/c12/gen/tl", schema], cwd=out)
    gdir = os.path.join(out, "gen", "internal")
    if rc != 0 or not os.path.isdir(gdir):
        c.problems.append("generation failed: %s" % txt[-400:])
        return c.finish()
    vroot = os.path.join(REPO, "internal", "pure", "onthefly", "zzgen")
    extra = {}
    for fn in os.listdir(gdir):
        if fn.endswith(".go"):
            extra[os.path.join(vroot, "internal", fn)] = os.path.join(gdir, fn)
    hdir = os.path.join(VERIF, "harness", "onthefly")
    extra[os.path.join(REPO, "internal", "pure", "zz_verif_pure_add.go")] = os.path.join(hdir, "zz_verif_pure_add.go")
    st = c.scratch.path("c12schema", "zz_verif_schema.go")
    open(st, "w").write("//go:build verif\n\npackage h\n\nconst verifSchemaText = %s\n" % json.dumps(open(schema).read()))
    params = {"N": 16, "NT": 24} if q else {"N": 36, "NT": 40}
    c.run_pkg(REPO, "./internal/pure/onthefly/zzgen/h", os.path.join(vroot, "h"), "h", [os.path.join(hdir, "zz_verif_c12.go"), st], "^VerifC12", params=params,
              extra_overlays=extra, max_models=6 if q else 20, wall="60s" if q else "900s", soft_trunc="record", max_paths=3000 if q else 100000,
              soft_problem_rx=r"loop bound \d+ exceeded in \(\*github.com/VKCOM/tl/internal/pure/onthefly\.KernelValueArray\)\.resize|exploration truncated")
    c.programs = 1
    c.assumptions += ["the kernel (pure.NewKernel, Compile) and the onthefly value tree run CONCRETELY inside the engine on schemas/p/c12.tl (the schema text is added through an overlay method that does what AddFileTL1 does after reading the file); the generated code for the same schema is regenerated from the working tree and overlaid into the same program",
                      "types: f02.local (local masks, %True, string, long), f04.arrays (nat-sized array, vectors, nested tuples, vector of strings) and c12.table (vector of structs with a # parameter whose fields take different nat arguments); TL1 bare and boxed; inputs = all byte strings of symbolic length <= N"]
    return c.finish(bounds=params, outside=["inputs declaring more than 11 array elements (the interpreter's KernelValueArray.resize allocates the declared count before any length check; such paths are cut at the loop bound and listed under not_covered)", "TL2 and JSON of the interpreter", "types other than the three", "interpreter-only features (UI, Random)"])
