from vlib.gen import *

def run(tier):
    c = GenCheck("C34", tier)
    q = tier == "quick"
    libs = [LIB, os.path.join(VERIF, "harness", "gen", "zz_verif_c34.go")]
    schema = os.path.join(VERIF, "schemas", "f", "f01_scalars.tl")
    params = {"jstrlen": 3 if q else 4}
    c.run_schema("f01", [schema], "full", ["C34"], "^VerifC34(String|StringBytes|Floats|Bool)$", params=params, libs=libs, only=["True"], wall="600s" if q else "3600s",
                 max_models=10 if q else 40, max_paths=400000)
    # integers: the REAL strconv formatBits / ParseUint / ParseInt code, decided with the integer back end of cvc5 and z3 as fallbacks
    c.run_schema("f01", [schema], "full", ["C34"], "^VerifC34(Uint32|Int32|Int64|Uint64)$", params=params, libs=libs, only=["True"], wall="900s" if q else "3600s",
                 max_models=6, oblig_ms=120000 if q else 600000)
    c.assumptions += ["floats: NaN/+Inf/-Inf and a table of boundary finite values are decided (strconv's float formatting/parsing runs natively on concrete values); arbitrary finite floats are outside the claim",
                      "integers: every value of the type (real strconv code interpreted symbolically, one path per digit count)"]
    return c.finish(bounds={"string_len": params["jstrlen"], "string_bytes": "all 256 values per byte", "integers": "all values"},
                    outside=["strings longer than %d bytes" % params["jstrlen"], "finite floats outside the table"])
