from vlib.core import *

def run(tier):
    c = Check("C40", tier)
    q = tier == "quick"
    params = {"extraN": 20, "bits": 1, "bodyN": 1} if q else {"extraN": 36, "bits": 2, "bodyN": 4}
    c.run_pkg(REPO, "./pkg/rpc", os.path.join(REPO, "pkg/rpc"), "rpc", [os.path.join(VERIF, "harness/rpc/zz_verif_c40.go")], "^VerifC40", params=params,
              max_models=10 if q else 40, wall="60s" if q else "3600s", soft_trunc="record")
    c.assumptions += ["extras range over everything the generated reader decodes from <= extraN bytes with at most `bits` flag bits set (every pair/triple of extra fields together, not all subsets)",
                      "request bodies start with the function tag, which differs from the four wrapper tags (schema tag uniqueness, C24); TL1 result bodies start with a boxed result tag distinct from the result wrappers",
                      "equality of extras is observed on their TL1 encodings (the writer emits exactly the flagged fields)"]
    return c.finish(bounds=params, outside=["more than `bits` extra fields at once", "extras longer than extraN bytes", "transport (packet framing is C35)"])
