from checks.gencommon import *

def run(tier):
    return run_gen("C05", tier, "^VerifC05", hgen_extra=["-jmode"], extra_runs=[JSON_STRINGS, dict(key="f07", schema="f07_dicts.tl", props=["C05"], regex="^VerifC05x_", params_q={}, params_t={}, libs=["zz_verif_c05_f07.go"], only=["F07VecDict"], wall_q="60s", wall_t="300s",
                                                  text="typed case f07.vecDict: dictionaries whose values own memory (vectors, nested dictionaries) with several entries (entries must not alias after a JSON read)")],
                   params_q={"D": 1, "L": 2, "S": 1, "B": 1, "pool": 1}, params_t={"D": 2, "L": 2, "S": 2, "B": 2, "pool": 4, "extrabit": 1},
                   ladder=[{"B": 1, "S": 1, "D": 1, "pool": 1, "extrabit": 0}], r_thorough=R_QUICK,
                   bounds={"value": "JSON-mode value: integer and float leaves are concrete on each path (rotating pool 0,1,7,1234567,max,min / 0,1.5,-2,NaN,+Inf,-Inf), field masks range over every subset of the bits the schema uses, "
                                    "strings are <= S fully symbolic bytes (all 256 values), bools/union variants/Maybe presence symbolic, sum of lengths <= B, depth <= D; object state normalised by the generated RepairMasks"},
                   outside=["full-range numbers and longer strings (decided at the primitive level in C34)", "schemas outside the corpus"],
                   assumptions=["strconv number formatting/parsing is executed natively on the concrete numbers of each path (native fast path); the all-values claim for numbers is C34's"])
