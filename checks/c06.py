from checks.gencommon import *

TYPED = {"f02": "zz_verif_c06_f02.go", "f03": "zz_verif_c06_f03.go", "f05": "zz_verif_c06_f05.go", "f06": "zz_verif_c06_f06.go", "f07": "zz_verif_c06_f07.go"}

def run(tier):
    c = GenCheck("C06", tier)
    q = tier == "quick"
    params = {"D": 1, "L": 2, "S": 1, "B": 1, "pool": 1} if q else {"D": 2, "L": 2, "S": 2, "B": 2, "pool": 4}
    hdir = os.path.join(VERIF, "harness", "gen")
    corpus = corpus_f(os.environ.get("VERIF_F_PATTERN") or "*")
    for idx, (key, schemas) in enumerate(corpus):
        libs = [LIB]
        rx = "^VerifC06_"
        if key in TYPED:
            libs += [os.path.join(hdir, "zz_verif_c06_lib.go"), os.path.join(hdir, TYPED[key])]
            rx = "^VerifC06(_|x_)"
        c.run_schema(key, schemas, "full", ["C06"], rx, params=params, libs=libs, skip=None if key == "f01" else PRELUDE, hgen_extra=["-jmode"],
                     wall="8s" if q else "300s", max_models=(6 if (idx + c.seed) % 3 == 0 else 0) if q else 30, max_paths=1200 if q else 60000)
        if key == "f02":  # the non-TL2 rejection rule needs code generated without TL2
            c.run_schema(key, schemas, "default", ["C06"], "^VerifC06x_", params=params, libs=libs, skip=PRELUDE, hgen_extra=["-jmode"], wall="60s", max_models=4, max_paths=5000)
    c.assumptions += ["generic part: every JSON-mode value (see C05) with all numbers rewritten as decimal strings decodes to the same value; an unknown key / a duplicated first key at the top level is rejected",
                      "typed part (schemas f02,f03,f05,f06,f07): the documented alternative forms of the property (Maybe with/without ok, enum as object, union as type string, masked fields implying mask bits, omitted empty values) and the documented rejections (ok:false with value, array length != size parameter, unknown/duplicate keys) with symbolic leaf values",
                      "not asserted because the property does not list them: dictionary as array of key/value pairs (rejected by map-backed readers), field under a clear OUTER mask bit (accepted)"]
    return c.finish(bounds=params, outside=["alternative spellings nested deeper than the typed templates", "schemas other than the corpus"])
