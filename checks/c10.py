from checks.gencommon import *

def run(tier):
    return run_gen("C10", tier, "^VerifC10", **SPEC["C10"])
