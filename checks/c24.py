from vlib.core import *

def run(tier):
    c = Check("C24", tier)
    q = tier == "quick"
    c.run_pkg(REPO, "./internal/tlcodegen", os.path.join(REPO, "internal/tlcodegen"), "tlcodegen", [os.path.join(VERIF, "harness/tlcodegen/zz_verif_c24.go")],
              "^VerifC24", params={"combs": 4 if q else 6}, max_models=10 if q else 40)
    c.run_pkg(REPO, "./internal/pure", os.path.join(REPO, "internal/pure"), "pure", [os.path.join(VERIF, "harness/pure/zz_verif_c24.go")],
              "^VerifC24", params={"combs": 3 if q else 4, "tl2": 2 if q else 3}, max_models=10 if q else 40)
    c.assumptions += ["the checkers are exercised directly on combinator lists with symbolic tags; that Compile / the legacy build entry call them and propagate the error is a structural fact reported separately"]
    return c.finish(bounds={"tl1_combinators": 4 if q else 6, "kernel_tl1": 3 if q else 4, "kernel_tl2": 2 if q else 3, "tags": "all 2^32 values each"},
                    outside=["more combinators than the bound (the checker is a single map-insert loop; its per-element behaviour does not depend on the count)"])
