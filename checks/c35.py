from vlib.core import *

def run(tier):
    c = Check("C35", tier)
    q = tier == "quick"
    f = [os.path.join(VERIF, "harness/rpc/zz_verif_c35.go")]
    params = {"K": 2, "words": 1, "splits": 2} if q else {"K": 3, "words": 2, "splits": 3}
    c.run_pkg(REPO, "./pkg/rpc", os.path.join(REPO, "pkg/rpc"), "rpc", f, "^VerifC35", params=params, max_models=8 if q else 30, wall="120s" if q else "1800s", soft_trunc="record")
    c.assumptions += ["REDUCED SCOPE: unencrypted framing (protocol version 0) of PacketConn over a harness net.Conn whose Read may return short at up to `splits` arbitrary places (every placement of the cuts), connection state right after the handshake (sequence numbers 0); the nonce/handshake exchange, AES-CBC and corruption under encryption are outside",
                      "hash/crc32 on symbolic bytes is an uninterpreted function: corruption inside checksummed data is decided only up to the CRC contract (stated), corruption of length / sequence fields by the explicit checks"]
    return c.finish(bounds=params, outside=["encrypted connections and the handshake", "concurrent readers/writers", "ping/pong built-in packets", "more than K packets"])
