from vlib.core import *

def run(tier):
    c = Check("C35", tier)
    q = tier == "quick"
    f = [os.path.join(VERIF, "harness/rpc/zz_verif_c35.go"), os.path.join(VERIF, "harness/rpc/zz_verif_c35c.go")]
    params = {"K": 2, "words": 1, "splits": 2, "csplits": 1, "CK": 2, "wbuf": 7, "rbuf": 6, "maxread": 5, "chunk": 5, "n0max": 3} if q else {"K": 3, "words": 2, "splits": 3, "csplits": 2, "CK": 2, "wbuf": 9, "rbuf": 9, "maxread": 9, "chunk": 7, "n0max": 4}
    c.run_pkg(REPO, "./pkg/rpc", os.path.join(REPO, "pkg/rpc"), "rpc", f, "^VerifC35", params=params, max_models=8 if q else 30, wall="120s" if q else "1800s", soft_trunc="record")
    c.assumptions += ["REDUCED SCOPE: unencrypted framing (protocol version 0) of PacketConn over a harness net.Conn whose Read may return short at up to `splits` arbitrary places (every placement of the cuts), connection state right after the handshake (sequence numbers 0); the nonce/handshake exchange, AES-CBC and corruption under encryption are outside",
                      "encrypted layer (VerifC35Crypto): cryptoWriter/cryptoReader with encryption switched on in mid-stream as the handshake does, AES-CBC replaced by a stub cipher.BlockMode of block size 4 (bijective, position dependent, panics on partial blocks); writer buffer sizes {2,7,9}<=wbuf, reader buffer sizes {1,4,6,9}<=rbuf, Read sizes alternating between two arbitrary members of {1,3,4,5,8,9}<=maxread, chunk sizes {0,1,4,5,7}<=chunk, plaintext prefix {0,1,3,4}, every flush placement, every segmentation with <= splits short reads",
                      "hash/crc32 on symbolic bytes is an uninterpreted function: corruption inside checksummed data is decided only up to the CRC contract (stated), corruption of length / sequence fields by the explicit checks"]
    return c.finish(bounds=params, outside=["the nonce/handshake packet exchange and real AES (the encrypted byte layer is decided with a stub cipher)", "concurrent readers/writers", "ping/pong built-in packets", "more than K packets"])
