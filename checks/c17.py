from checks.gencommon import *

ANNOT = {"any": 1, "internal": 2, "kphp": 4, "read": 8, "readwrite": 0x10, "write": 0x20}


def registry(c, key, schema, optname, opts, tier):
    """C17 registry part for one TL1 schema: expectations from the canonical listing, harness package vmod/<k>/zzreg"""
    k = "%s_%s_reg" % (key, optname)
    pkgdir, txt = generate(c.tl2gen, c.mod, k, [schema], opts)
    if not pkgdir:
        c.problems.append("generation failed for %s [%s]: %s" % (key, optname, txt[-600:]))
        return
    rc, txt = sh(["go", "build", "./%s/gen/..." % k], cwd=c.mod)
    if rc != 0:
        # C14's subject (not claimed): the generated code of this schema/layout does not build, so its registry cannot be executed
        c.not_covered.append({"harness": "VerifC17Registry", "schema": "%s[%s]/registry" % (key, optname), "reason": "generated code does not build: " + txt.strip().split("\n")[-1][:200]})
        return
    canon = os.path.join(c.mod, k, "canonical.txt")
    rc, txt = sh([c.tl2gen, "--language=canonical", "--outfile=" + canon, schema], cwd=c.mod)
    if rc != 0 or not os.path.exists(canon):
        c.problems.append("canonical listing failed for %s: %s" % (key, txt[-400:]))
        return
    expect, ctors = [], {}
    for line in open(canon):
        line = line.split(" //")[0].strip()
        m = re.match(r"^((?:@\w+ )*)([\w.]+)#([0-9a-f]{8}) (.*)= (.*)$", line)
        if not m:
            continue
        annots, name, tag, args, res = m.groups()
        if "{" in args or "?" == args.strip():  # generic combinators and builtin wrappers of primitives: see below
            if "{" in args:
                continue
        fn = bool(annots.strip())
        a = 0
        for w in annots.split():
            a |= ANNOT.get(w[1:], 0)
        tname = res.split()[0]
        if not fn and tname == "Bool":
            continue  # Bool is mapped to the Go bool: its constructors are not items
        expect.append((name, int(tag, 16), fn, a))
        if not fn:
            ctors[tname] = ctors.get(tname, 0) + 1
    types = [t for t, n in ctors.items() if n >= 2]  # union types are items of their own (tag 0)
    gen = os.path.join(c.mod, k, "gen")
    pubs = sorted(d for d in os.listdir(gen) if d.startswith("tl") and os.path.isdir(os.path.join(gen, d)) and d != "tl")
    base = "vmod/%s/gen/" % k
    imports = ['\t"%smeta"' % base, '\t_ "%sfactory"' % base] + ['\t_ "%s%s"' % (base, d) for d in pubs]
    pkgs = [base + "internal/metainternal"] + [base + d for d in pubs] + [base + "meta", base + "factory"]
    src = open(os.path.join(VERIF, "harness", "reg", "zz_verif_c17reg.go.tmpl")).read()
    src = src.replace("IMPORTS", "\n".join(imports)).replace("EXPECT", "\n".join('\t{%s, 0x%08x, %s, 0x%x},' % (json.dumps(n), t, "true" if f else "false", a) for n, t, f, a in expect))
    src = src.replace("TYPES", "\n".join("\t%s," % json.dumps(t) for t in types)).replace("PKGS", "\n".join("\t%s," % json.dumps(p) for p in pkgs))
    src = src.replace("HASTL2", "true" if "--tl2WhiteList=*" in opts else "false")
    rdir = os.path.join(c.mod, k, "zzreg")
    os.makedirs(rdir, exist_ok=True)
    open(os.path.join(rdir, "doc.go"), "w").write("package zzreg\n")
    hf = os.path.join(rdir, "zz_verif_c17reg.go")
    open(hf, "w").write(src)
    c.programs += 1
    c.run_pkg(c.mod, "./%s/zzreg" % k, rdir, "zzreg", [hf], "^VerifC17Registry$", params={}, label="%s[%s]/registry" % (key, optname), max_models=4,
              wall="60s" if tier == "quick" else "600s", soft_trunc="record")


def run(tier):
    spec = dict(SPEC["C17"])
    c = run_gen("C17", tier, "^VerifC17", finish=False, **spec)
    pat = os.environ.get("VERIF_F_PATTERN") or "*"
    for key, schemas in corpus_f(pat):
        if not schemas[0].endswith(".tl"):
            continue
        registry(c, key, schemas[0], "full", OPTSETS["full"], tier)
        registry(c, key, schemas[0], "split", OPTSETS["full"] + ["--split-internal"], tier)
    c.assumptions.append("registry part: per TL1 corpus schema and layout (single internal package / --split-internal with the public namespace packages imported next to meta and factory), expectations (name, tag, function-ness, annotation flags of every non-generic combinator; union type names) parsed from the generator's canonical listing; lookup by name for every combinator, lookup by tag for EVERY 32-bit value; uniqueness of names and tags; factory-created objects report name and tag and their boxed zero value starts with the tag")
    return c.finish(**c._finish_kw)
