from checks.gencommon import *

def run(tier):
    return run_gen("C17", tier, "^VerifC17", **SPEC["C17"])
