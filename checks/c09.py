from checks.gencommon import *

def run(tier):
    return run_gen("C09", tier, "^VerifC09", **SPEC["C09"])
