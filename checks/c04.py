from checks.gencommon import *

def run(tier):
    return run_gen("C04", tier, "^VerifC04", **SPEC["C04"])
