from vlib.gen import *

def run(tier):
    c = GenCheck("C28", tier, "translation_validation")
    q = tier == "quick"
    old = os.path.join(VERIF, "schemas", "p", "p2_old.tl")
    new = os.path.join(VERIF, "schemas", "p", "p2_new.tl")
    # the verdict comes from the REAL linter built from the working tree
    tlgen = c.scratch.path("bin", "tlgen")
    rc, txt = sh(["go", "build", "-o", tlgen, "./cmd/tlgen"], cwd=REPO)
    accepted = False
    if rc == 0:
        rc, txt = sh([tlgen, "--schema-to-compare=" + old, new], cwd=c.scratch.dir)
        accepted = "New version is backward compatible" in txt and "warning" not in txt.lower()
    if not accepted:
        c.problems.append("the linter built from the working tree does not accept the documented-safe pair schemas/p/p2_old.tl -> p2_new.tl (see C29): %s" % txt[-400:])
        return c.finish(bounds={}, outside=[])
    libs = [LIB, os.path.join(VERIF, "harness", "gen", "zz_verif_c28.go")]
    params = {"N": 20} if q else {"N": 40}
    c.run_schema("p2/gen/newer", [new], "default", ["C28"], "^VerifC28", params=params, libs=libs, only=["True"], rawkey=True, extra_gen=[("p2", [old], "default")],
                 wall="120s" if q else "900s", max_models=10 if q else 40, max_paths=300000)
    c.extra["linter_verdict"] = "accepted (tlgen --schema-to-compare, built from the working tree)"
    c.assumptions += ["pair: schemas/p/p2_old.tl -> p2_new.tl (appended masked fields on unused bits incl. through an outer mask, appended constructor to a boxed-only type, added type, added function with leading mask, appended masked function argument), accepted by the real linter in this run",
                      "old encodings = everything the OLD generated readers decode from <= N arbitrary bytes whose field masks set only bits the old schema gives meaning to"]
    return c.finish(bounds=params, outside=["other (old,new) pairs", "values of types using the appended constructor (new-only)"])
