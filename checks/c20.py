from checks import c19

def run(tier):
    return c19.run(tier, prop="C20", lang="C20")
