from checks.gencommon import *

def run(tier):
    return run_gen("C08", tier, "^VerifC08", **SPEC["C08"])
