from vlib.core import *

def run(tier):
    c = Check("C29", tier)
    q = tier == "quick"
    f = [os.path.join(VERIF, "harness/tlcodegen/zz_verif_c29.go")]
    rx = "^VerifC29Safe$" if "C29" == "C29" else "^VerifC30Unsafe$"
    c.run_pkg(REPO, "./internal/tlcodegen", os.path.join(REPO, "internal/tlcodegen"), "tlcodegen", f, rx, params={}, max_models=12 if q else 60, wall="900s")
    c.assumptions += ["the schemas are a fixed base schema plus one edit per case (edit kinds and positions enumerated in harness/tlcodegen/zz_verif_c29.go); every field-mask bit number of the base and of the edit is a symbolic value in 0..31 (shared between old and new schema)",
                      "the parser runs concretely inside the engine on the schema texts; the linter runs on the resulting AST with symbolic bits"]
    return c.finish(bounds={"bits": "all assignments of 6 bit numbers in 0..31 (32^6 decided symbolically per case)"}, outside=["base schemas and edit positions other than the enumerated ones", "several edits at once"])
