from vlib.core import *

def run(tier):
    c = Check("C22", tier)
    q = tier == "quick"
    f = [os.path.join(VERIF, "harness/tlast/zz_verif_c22.go")]
    params = {"maxnum": 99, "skel": -1, "cmtN": 1} if q else {"maxnum": 0, "skel": -1, "cmtN": 2}
    c.run_pkg(REPO, "./internal/tlast", os.path.join(REPO, "internal/tlast"), "tlast", f, "^VerifC22(Format|Comments)$", params=params, max_models=10 if q else 40, wall="60s" if q else "900s", soft_trunc="record")
    c.assumptions += ["TL2 skeleton files (harness/tlast/zz_verif_c22.go) with EVERY number symbolic: explicit magics (all non-zero 32-bit values), array sizes and numeric template arguments (<= maxnum when maxnum > 0); default and canonical format options",
                      "comments: symbolic content (every byte but line breaks, <= cmtN bytes per line) of one- and two-line comments before combinators, union variants, variant/struct fields, function arguments and to the right of fields, parsed by the real lexer",
                      "same declarations = equal canonical print of original and re-parsed file plus names/magics/arity compared directly"]
    return c.finish(bounds=params, outside=["files other than the skeletons", "symbolic identifier names", "comment lines longer than cmtN bytes"])
