from vlib.core import *

def run(tier):
    c = Check("C22", tier)
    q = tier == "quick"
    f = [os.path.join(VERIF, "harness/tlast/zz_verif_c22.go")]
    params = {"maxnum": 99, "skel": -1} if q else {"maxnum": 0, "skel": -1}
    c.run_pkg(REPO, "./internal/tlast", os.path.join(REPO, "internal/tlast"), "tlast", f, "^VerifC22Format$", params=params, max_models=10 if q else 40, wall="60s" if q else "900s", soft_trunc="record")
    c.assumptions += ["TL2 skeleton files (harness/tlast/zz_verif_c22.go) with EVERY number symbolic: explicit magics (all non-zero 32-bit values), array sizes and numeric template arguments (<= maxnum when maxnum > 0); default and canonical format options",
                      "same declarations = equal canonical print of original and re-parsed file plus names/magics/arity compared directly"]
    return c.finish(bounds=params, outside=["files other than the skeletons", "symbolic identifier names and comments"])
