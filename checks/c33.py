from vlib.core import *

def run(tier):
    c = Check("C33", tier)
    hdir = os.path.join(VERIF, "harness", "basictl")
    files = [os.path.join(hdir, f) for f in sorted(os.listdir(hdir)) if f.startswith("zz_verif_c33")]
    params = {"strlen": 8, "bits": 17, "maxalloc": 64} if tier == "quick" else {"strlen": 300, "bits": 40, "maxalloc": 400}
    for pkg in ("pkg/basictl", "internal/vkgo/pkg/basictl"):
        if not os.path.isdir(os.path.join(REPO, pkg)):
            continue
        c.run_pkg(REPO, "./" + pkg, os.path.join(REPO, pkg), "basictl", files, "^VerifC33", params=params,
                  max_models=10 if tier == "quick" else 60, label=pkg)
    c.assumptions += ["Go slices/strings modelled as (array, offset, length) views of an uninterpreted input array; append/copy follow Go semantics with exact-fit growth",
                      "fmt.Errorf text is opaque (only nil-ness and errors.Is wrapping are observed)"]
    return c.finish(
        bounds={"buffer_length": "symbolic, 0..2^57 (readers on arbitrary buffers, header logic)", "string_length_header": "all 0..2^56-1",
                "content_copy_len": params["strlen"], "bit_vector_len": params["bits"]},
        outside=["content copies longer than %d bytes" % params["strlen"], "bit vectors longer than %d" % params["bits"]])
