#!/usr/bin/env python3
"""Regenerates MANIFEST.json from tools/claims.json (claimed checks) + properties.jsonl (everything else is not_applicable)."""
import json, os
V = os.path.dirname(os.path.dirname(os.path.abspath(__file__)))
props = [json.loads(l) for l in open(os.path.join(V, "properties.jsonl"))]
claims = json.load(open(os.path.join(V, "tools", "claims.json")))
GO = "PATH=/root/go/pkg/mod/golang.org/toolchain@v0.0.1-go1.24.0.linux-amd64/bin:$PATH GOTOOLCHAIN=local GOFLAGS=-mod=mod GOPROXY=off"
m = {"version": 1, "setup_cmd": "./setup.sh",
     "hooks": {"guard": "verif", "enable": "harness files carry //go:build verif and are injected with go/packages Overlay (engine) and go test -overlay -tags verif (native replay); /repo itself has no hook commits",
               "baseline_off_cmd": "cd /repo && %s go test -json -vet=off -count=1 -timeout 25m ./..." % GO, "source_commits": [], "add_only": True},
     "engines": [{"name": "gose", "path": "/verif/gose", "serves_properties": sorted(claims["checks"].keys()),
                  "kind_free_text": "own go/ssa symbolic executor (KLEE-style path exploration by re-execution) emitting SMT-LIB2 to a long-lived z3 -in per worker; every branch feasibility and every assertion is a solver query; counterexamples are replayed natively before being reported"}],
     "checks": [], "not_applicable": [], "notes": "see DESIGN.md; exit 2 + INCONCLUSIVE line = bound/unsupported/solver-unknown (never reported as success)"}
for p in props:
    pid = p["id"]
    if pid in claims["checks"]:
        c = claims["checks"][pid]
        m["checks"].append({"property_id": pid, "quick_cmd": "./check %s --tier quick" % pid, "thorough_cmd": "./check %s --tier thorough" % pid,
                            "evidence_file": "/verif/evidence/%s.json" % pid, "replay_cmd_template": "{path}", "engine": "gose",
                            "level_claimed": {"category": c.get("level", "model_checking"), "text": c["text"], "design_ref": c.get("design_ref", "DESIGN.md §6 " + pid)},
                            "level_note": c["note"], "technique": c.get("technique", "bounded symbolic execution of the real Go SSA + SMT (z3), counterexamples replayed natively")})
    else:
        m["not_applicable"].append({"property_id": pid, "reason": claims["not_applicable"].get(pid, "check not built yet (work in progress)")})
json.dump(m, open(os.path.join(V, "MANIFEST.json"), "w"), indent=1)
print("checks:", len(m["checks"]), "n/a:", len(m["not_applicable"]))
