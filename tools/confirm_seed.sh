#!/bin/bash
# usage: tools/confirm_seed.sh <agent-worktree-or-"-"> <name>
# stores the agent's seed under /verif/seeded/<name>/ (patch.diff, demo/, meta.json) and confirms it in a FRESH scratch worktree:
# builds, existing tests pass with the change, demo fails with / passes without the change. Writes confirm.log.
SRC="$1"; NAME="$2"
export PATH=/root/go/pkg/mod/golang.org/toolchain@v0.0.1-go1.24.0.linux-amd64/bin:$PATH GOTOOLCHAIN=local GOFLAGS=-mod=mod GOPROXY=off
OUT=/verif/seeded/$NAME; mkdir -p $OUT; LOG=$OUT/confirm.log; : > $LOG
if [ "$SRC" != "-" ]; then
  cp $SRC/_seed/patch.diff $OUT/patch.diff; cp $SRC/_seed/meta.json $OUT/meta.json; rm -rf $OUT/demo; cp -r $SRC/_seed/demo $OUT/demo
fi
WT=/tmp/wt_confirm_$NAME
git -C /repo worktree remove --force $WT >/dev/null 2>&1
git -C /repo worktree add --detach $WT HEAD >/dev/null 2>&1 || exit 2
cd $WT
git apply $OUT/patch.diff || { echo "patch does not apply" >> $LOG; git -C /repo worktree remove --force $WT; exit 2; }
echo "== build" >> $LOG; go build ./... >> $LOG 2>&1 || { echo "BUILD FAILED" >> $LOG; }
echo "== existing tests with the change" >> $LOG
go test -vet=off -count=1 ./... > /tmp/confirm_$NAME.test 2>&1; RC=$?
grep -v "^ok\|no test files" /tmp/confirm_$NAME.test | head -30 >> $LOG; echo "go test exit=$RC" >> $LOG
echo "== demo with the change (must fail)" >> $LOG
bash $OUT/demo/run.sh "$WT" > /tmp/confirm_$NAME.demo1 2>&1; D1=$?; tail -n 8 /tmp/confirm_$NAME.demo1 >> $LOG; echo "demo exit=$D1" >> $LOG
git checkout -q -- . ; git clean -fdq
echo "== demo on the original (must pass)" >> $LOG
bash $OUT/demo/run.sh "$WT" > /tmp/confirm_$NAME.demo0 2>&1; D0=$?; tail -n 4 /tmp/confirm_$NAME.demo0 >> $LOG; echo "demo exit=$D0" >> $LOG
if [ $RC -eq 0 ] && [ $D1 -ne 0 ] && [ $D0 -eq 0 ]; then echo "CONFIRMED" >> $LOG; else echo "NOT CONFIRMED" >> $LOG; fi
cd /; git -C /repo worktree remove --force $WT >/dev/null 2>&1
echo "$NAME $(tail -n 1 $LOG)"
