#!/bin/sh
# usage: tools/confirm_seed.sh <worktree> <name>   — confirms a seeded change: builds, existing tests pass, demo fails with / passes without the change;
# then stores it under /verif/seeded/<name>/ (patch.diff, demo/, meta.json, confirm.log)
WT="$1"; NAME="$2"
export PATH=/root/go/pkg/mod/golang.org/toolchain@v0.0.1-go1.24.0.linux-amd64/bin:$PATH GOTOOLCHAIN=local GOFLAGS=-mod=mod GOPROXY=off
OUT=/verif/seeded/$NAME; mkdir -p $OUT; LOG=$OUT/confirm.log; : > $LOG
cd "$WT" || exit 2
cp _seed/patch.diff $OUT/patch.diff; cp _seed/meta.json $OUT/meta.json; rm -rf $OUT/demo; cp -r _seed/demo $OUT/demo
# make sure the tree is exactly HEAD + patch
git stash -u -q 2>/dev/null; git checkout -q -- . ; git apply $OUT/patch.diff || { echo "patch does not apply" >> $LOG; exit 2; }
echo "== build" >> $LOG; go build ./... >> $LOG 2>&1 || { echo "BUILD FAILED" >> $LOG; exit 1; }
echo "== existing tests with the change" >> $LOG
go test -vet=off -count=1 ./... > /tmp/confirm_$NAME.test 2>&1; RC=$?
grep -v "^ok\|no test files" /tmp/confirm_$NAME.test | head -30 >> $LOG; echo "go test exit=$RC" >> $LOG
echo "== demo with the change (must fail)" >> $LOG
babash $OUT/demo/run.sh "$WT" > /tmp/confirm_$NAME.demo1 2>&1; D1=$?; tail -n 8 /tmp/confirm_$NAME.demo1 >> $LOG; echo "demo exit=$D1" >> $LOG
git checkout -q -- . 
echo "== demo on the original (must pass)" >> $LOG
babash $OUT/demo/run.sh "$WT" > /tmp/confirm_$NAME.demo0 2>&1; D0=$?; tail -n 4 /tmp/confirm_$NAME.demo0 >> $LOG; echo "demo exit=$D0" >> $LOG
git apply $OUT/patch.diff
if [ $RC -eq 0 ] && [ $D1 -ne 0 ] && [ $D0 -eq 0 ]; then echo "CONFIRMED" >> $LOG; else echo "NOT CONFIRMED" >> $LOG; fi
tail -n 1 $LOG
