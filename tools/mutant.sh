#!/bin/sh
# usage: tools/mutant.sh <repo-worktree-with-the-change-applied> <ID> [tier]  — runs a check against a mutated tree without touching /repo or the committed evidence
WT="$1"; ID="$2"; TIER="${3:-quick}"
mkdir -p /tmp/mut_ev /tmp/mut_replays
VERIF_REPO="$WT" VERIF_EVIDENCE_DIR=/tmp/mut_ev VERIF_REPLAY_DIR=/tmp/mut_replays "$(dirname "$0")/../check" "$ID" --tier "$TIER"
