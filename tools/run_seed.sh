#!/bin/bash
# usage: tools/run_seed.sh <seed-id> <check-ID> [f-pattern]  — applies /verif/seeded/<seed-id>/patch.diff in a scratch worktree and runs the check against it
SEED="$1"; ID="$2"; PAT="$3"
WT=/tmp/wt_mut_$SEED
git -C /repo worktree remove --force $WT >/dev/null 2>&1
git -C /repo worktree add --detach $WT HEAD >/dev/null 2>&1 || exit 2
git -C $WT apply /verif/seeded/$SEED/patch.diff || { echo "patch does not apply"; git -C /repo worktree remove --force $WT; exit 2; }
mkdir -p /tmp/mut_ev /tmp/mut_replays
VERIF_F_PATTERN="$PAT" VERIF_NO_REBUILD=1 VERIF_REPO=$WT VERIF_EVIDENCE_DIR=/tmp/mut_ev VERIF_REPLAY_DIR=/tmp/mut_replays /verif/check $ID --tier quick > /tmp/seedrun_${SEED}_$ID.log 2>&1
rc=$?
echo "seed=$SEED check=$ID rc=$rc $(grep -c '^VIOLATION' /tmp/seedrun_${SEED}_$ID.log) violations"
grep '^VIOLATION' -A1 /tmp/seedrun_${SEED}_$ID.log | grep -v "^--" | cut -c1-200 | head -6
git -C /repo worktree remove --force $WT >/dev/null 2>&1
