#!/bin/sh
# builds the framework from /verif sources only (offline)
set -e
cd "$(dirname "$0")"
. ./env.sh
mkdir -p bin evidence
(cd gose && go build -o ../bin/gose ./cmd/gose)
echo setup ok
