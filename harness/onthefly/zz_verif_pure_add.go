//go:build verif

package pure

import "github.com/VKCOM/tl/internal/tlast"

// VerifAddFileTL1Text does what AddFileTL1 does after reading the file (no file I/O inside the engine).
func (k *Kernel) VerifAddFileTL1Text(text, file string) error {
	tl, err := tlast.ParseTLFile(text, file, tlast.LexerOptions{AllowDirty: true})
	if err != nil {
		return err
	}
	k.filesTL1 = append(k.filesTL1, tl)
	return nil
}
