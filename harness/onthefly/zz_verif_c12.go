//go:build verif

package h

// C12: the dynamic interpreter (internal/pure/onthefly) against generated code for the same schema, on the same bytes.

import (
	"github.com/VKCOM/tl/internal/pure"
	"github.com/VKCOM/tl/internal/pure/onthefly"
	gen "github.com/VKCOM/tl/internal/pure/onthefly/zzgen/internal"
)

func init() {
	verifRegister("VerifC12Local", VerifC12Local)
	verifRegister("VerifC12Arrays", VerifC12Arrays)
	verifRegister("VerifC12Table", VerifC12Table)
	verifRegister("VerifC12TableRows", VerifC12TableRows)
}

type verifGenTL1 interface {
	ReadTL1(w []byte) ([]byte, error)
	ReadTL1Boxed(w []byte) ([]byte, error)
	WriteTL1General(w []byte) ([]byte, error)
	WriteTL1BoxedGeneral(w []byte) ([]byte, error)
}

func verifKernelValue(canonical string) onthefly.KernelValue {
	k := pure.NewKernel(&pure.OptionsKernel{TypesWhiteList: "*", TL2WhiteList: "*"})
	if err := k.VerifAddFileTL1Text(verifSchemaText, "s.tl"); err != nil {
		panic("harness schema: " + err.Error())
	}
	if err := k.Compile(); err != nil {
		panic("harness schema does not compile: " + err.Error())
	}
	for _, ins := range k.AllTypeInstances() {
		if ins.CanonicalName() == canonical {
			return onthefly.CreateValue(ins)
		}
	}
	panic("instance not found: " + canonical)
}

func verifC12(canonical string, g verifGenTL1) { verifC12N(canonical, g, verifParam("N", 20)) }

func verifC12N(canonical string, g verifGenTL1, N int) {
	val := verifKernelValue(canonical)
	// the interpreter allocates the declared element count before any length check: cut such paths at a small loop bound
	verifLoopBound(verifParam("loop", 12))
	verifC12Bytes(canonical, g, val, verifBool(), verifBytes(N))
}

func verifC12Bytes(canonical string, g verifGenTL1, val onthefly.KernelValue, bare bool, b []byte) {
	var ctx onthefly.TLContext
	r1, _, e1 := val.ReadTL1(b, &ctx, bare, nil)
	var r2 []byte
	var e2 error
	if bare {
		r2, e2 = g.ReadTL1(b)
	} else {
		r2, e2 = g.ReadTL1Boxed(b)
	}
	verifAssert((e1 == nil) == (e2 == nil), "interpreter-and-generated-code-accept-the-same-bytes:"+canonical)
	if e1 != nil || e2 != nil {
		verifCover("rejected")
		return
	}
	verifCover("accepted")
	verifAssert(len(r1) == len(r2), "same-consumed-length:"+canonical)
	var bb onthefly.ByteBuilder
	val.WriteTL1(&bb, bare, nil, false, 0, nil)
	var w []byte
	if bare {
		w, _ = g.WriteTL1General(nil)
	} else {
		w, _ = g.WriteTL1BoxedGeneral(nil)
	}
	verifAssert(verifBytesEq(bb.Buf(), w), "same-tl1-bytes:"+canonical)
}

func VerifC12Local()  { verifC12("f02.local", &gen.F02Local{}) }
func VerifC12Arrays() { verifC12("f04.arrays", &gen.F04Arrays{}) }

// vector of structs that take a # parameter and pass DIFFERENT nat arguments to their fields (per-element nat-argument stack)
func VerifC12Table() { verifC12N("c12.table", &gen.C12Table{}, verifParam("NT", 24)) }

// the same type on WELL-FORMED inputs built from parts: n in 0..1, two or three rows whose k (0..2) is chosen independently of n,
// all element values symbolic - the region in which rows take different nat arguments, which arbitrary short inputs reach rarely
func VerifC12TableRows() {
	val := verifKernelValue("c12.table")
	verifLoopBound(verifParam("loop", 12))
	le := func(w []byte, v uint32) []byte { return append(w, byte(v), byte(v>>8), byte(v>>16), byte(v>>24)) }
	n := uint32(verifChoice(2))
	rows := 2 + verifChoice(2)
	b := le(le(nil, n), uint32(rows))
	for i := 0; i < rows; i++ {
		k := uint32(verifChoice(3))
		b = le(b, k)
		for j := uint32(0); j < n+k; j++ {
			b = le(b, verifU32())
		}
	}
	verifC12Bytes("c12.table", &gen.C12Table{}, val, true, b)
}
