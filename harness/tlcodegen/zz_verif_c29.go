//go:build verif

package tlcodegen

import (
	"strings"

	"github.com/VKCOM/tl/internal/tlast"
)

func init() {
	verifRegister("VerifC29Safe", VerifC29Safe)
	verifRegister("VerifC30Unsafe", VerifC30Unsafe)
}

// base schema; the two-digit bit numbers 11..15 are placeholders replaced by symbolic bits B0..B4 after parsing, 20 = beta
const verifLintBase = `int ? = Int;
long ? = Long;
string ? = String;
true = True;
vector {t:Type} # [t] = Vector t;
boolFalse = Bool;
boolTrue = Bool;
a.inner {m:#} x:m.11?int y:m.12?long = a.Inner m;
a.rec m:# f:m.13?int g:m.14?string in:(a.inner m) = a.Rec;
a.plain x:int y:string z:long = a.Plain;
a.holder p:a.plain b:a.Boxed = a.Holder;
a.boxed1 q:int = a.Boxed;
a.two n:# k:# u:n.11?int v:k.12?int = a.Two;
a.dbl {p:#} {q:#} x:p.11?int y:q.12?int = a.Dbl p q;
a.useDbl n:# k:# d:(a.dbl n k) = a.UseDbl;
a.mix {p:#} l:# x:p.13?int y:l.14?int = a.Mix p;
a.useMix n:# d:(a.mix n) = a.UseMix;
a.solo {m:#} x:m.11?int y:m.12?long = a.Solo m;
a.tm {m:#} n:# xs:(a.inner n) = a.Tm m;
a.out {m:#} a:int i:%(a.Inner m) = a.Out m;
a.useOut k:# o:(a.out k) = a.UseOut;
a.useTm k:# t:(a.tm k) = a.UseTm;
---functions---
@read a.get m:# k:m.15?int = a.Rec;
@read a.getDbl f1:# f2:# = a.Dbl f1 f2;
@read a.simple x:int = Int;
`

type verifLintCase struct {
	name   string
	from   string // substring of the base to replace ("" = append `to` at the end of the types section)
	to     string
	accept int // 1 accept, 0 reject, 2 accept iff beta is not a used bit (usedBy lists the placeholder bits in scope)
	usedBy []int
}

var verifSafeCases = []verifLintCase{
	{name: "identical", from: "", to: "", accept: 1},
	{name: "append-masked-field-local-mask", from: " in:(a.inner m) = a.Rec;", to: " in:(a.inner m) h:m.20?int = a.Rec;", accept: 2, usedBy: []int{13, 14, 11, 12}},
	{name: "append-masked-field-template-mask", from: " y:m.12?long = a.Inner m;", to: " y:m.12?long w:m.20?int = a.Inner m;", accept: 2, usedBy: []int{11, 12, 13, 14}},
	{name: "append-masked-true-field", from: " in:(a.inner m) = a.Rec;", to: " in:(a.inner m) h:m.20?%True = a.Rec;", accept: 2, usedBy: []int{13, 14, 11, 12}},
	{name: "append-constructor-to-boxed-only-type", from: "a.boxed1 q:int = a.Boxed;", to: "a.boxed1 q:int = a.Boxed;\na.boxed2 = a.Boxed;", accept: 1},
	{name: "add-type", from: "a.boxed1 q:int = a.Boxed;", to: "a.boxed1 q:int = a.Boxed;\na.newt x:int s:string = a.NewT;", accept: 1},
	{name: "add-function-with-leading-mask", from: "@read a.simple x:int = Int;", to: "@read a.simple x:int = Int;\n@read a.get2 fm:# x:fm.0?int = a.Rec;", accept: 1},
	{name: "append-masked-function-argument", from: " k:m.15?int = a.Rec;", to: " k:m.15?int k2:m.20?long = a.Rec;", accept: 2, usedBy: []int{15}},
	{name: "append-masked-field-second-mask", from: " v:k.12?int = a.Two;", to: " v:k.12?int w:k.20?int = a.Two;", accept: 2, usedBy: []int{12}},
	// two template masks / a template and a local mask in one type: only the bits of the mask the new field hangs on count
	{name: "append-masked-field-first-of-two-template-masks", from: " y:q.12?int = a.Dbl p q;", to: " y:q.12?int z:p.20?int = a.Dbl p q;", accept: 2, usedBy: []int{11}},
	{name: "append-masked-field-second-of-two-template-masks", from: " y:q.12?int = a.Dbl p q;", to: " y:q.12?int z:q.20?int = a.Dbl p q;", accept: 2, usedBy: []int{12}},
	{name: "append-masked-field-template-mask-beside-local-mask", from: " y:l.14?int = a.Mix p;", to: " y:l.14?int z:p.20?int = a.Mix p;", accept: 2, usedBy: []int{13}},
	{name: "append-masked-field-local-mask-beside-template-mask", from: " y:l.14?int = a.Mix p;", to: " y:l.14?int z:l.20?int = a.Mix p;", accept: 2, usedBy: []int{14}},
	// a # forwarded through two type levels: the bits used inside the innermost type count for the outer levels too
	{name: "append-masked-field-on-mask-forwarded-to-nested-type", from: " i:%(a.Inner m) = a.Out m;", to: " i:%(a.Inner m) y:m.20?int = a.Out m;", accept: 2, usedBy: []int{11, 12}},
	{name: "append-masked-field-on-mask-forwarded-through-two-levels", from: " o:(a.out k) = a.UseOut;", to: " o:(a.out k) y:k.20?int = a.UseOut;", accept: 2, usedBy: []int{11, 12}},
	{name: "append-masked-function-argument-on-mask-passed-to-result", from: "@read a.getDbl f1:# f2:# = a.Dbl f1 f2;", to: "@read a.getDbl f1:# f2:# e:f1.20?int = a.Dbl f1 f2;", accept: 2, usedBy: []int{11}},
}

var verifUnsafeCases = []verifLintCase{
	{name: "remove-constructor", from: "a.plain x:int y:string z:long = a.Plain;\n", to: ""},
	{name: "remove-union-variant", from: "boolTrue = Bool;\n", to: ""},
	{name: "remove-function", from: "@read a.simple x:int = Int;\n", to: ""},
	{name: "remove-first-field", from: "a.plain x:int y:string", to: "a.plain y:string"},
	{name: "remove-middle-field", from: " y:string z:long = a.Plain", to: " z:long = a.Plain"},
	{name: "remove-last-field", from: " z:long = a.Plain", to: " = a.Plain"},
	{name: "remove-masked-field", from: " g:m.14?string", to: ""},
	{name: "remove-function-argument", from: " k:m.15?int = a.Rec;", to: " = a.Rec;"},
	// (on a type nothing else refers to: removing a template argument of a referenced type leaves a schema that does not type-check,
	// and the linter is only defined on schemas that do)
	{name: "remove-template-argument", from: "a.solo {m:#} x:m.11?int y:m.12?long = a.Solo m;", to: "a.solo x:int = a.Solo;"},
	{name: "change-field-type", from: "a.plain x:int", to: "a.plain x:long"},
	{name: "change-last-field-type", from: " z:long = a.Plain", to: " z:int = a.Plain"},
	{name: "change-masked-field-type", from: " f:m.13?int", to: " f:m.13?long"},
	{name: "change-function-argument-type", from: "@read a.simple x:int", to: "@read a.simple x:long"},
	{name: "change-bare-to-boxed", from: "a.holder p:a.plain", to: "a.holder p:a.Plain"},
	{name: "change-mask-reference", from: " v:k.12?int = a.Two;", to: " v:n.12?int = a.Two;"},
	// a reference moved between the FIRST template argument and the FIRST field (and other pairs) of one combinator
	{name: "change-mask-reference-template-to-first-field", from: " x:p.13?int y:l.14?int = a.Mix p;", to: " x:l.13?int y:l.14?int = a.Mix p;"},
	{name: "change-mask-reference-first-field-to-template", from: " y:l.14?int = a.Mix p;", to: " y:p.14?int = a.Mix p;"},
	{name: "change-mask-reference-between-template-arguments", from: " x:p.11?int y:q.12?int = a.Dbl p q;", to: " x:q.11?int y:q.12?int = a.Dbl p q;"},
	{name: "change-nat-type-argument-source", from: "a.useDbl n:# k:# d:(a.dbl n k) = a.UseDbl;", to: "a.useDbl n:# k:# d:(a.dbl k k) = a.UseDbl;"},
	{name: "change-nat-type-argument-field-to-template", from: " xs:(a.inner n) = a.Tm m;", to: " xs:(a.inner m) = a.Tm m;"},
	{name: "change-mask-bit", from: " g:m.14?string", to: " g:m.20?string", accept: 3},
	{name: "change-mask-bit-in-function", from: " k:m.15?int", to: " k:m.20?int", accept: 4},
	{name: "remove-mask-from-field", from: " f:m.13?int", to: " f:int"},
	{name: "add-mask-to-field", from: " in:(a.inner m) = a.Rec;", to: " in:m.20?(a.inner m) = a.Rec;"},
	{name: "append-unmasked-field", from: " z:long = a.Plain", to: " z:long t:int = a.Plain"},
	{name: "append-unmasked-field-after-masked", from: " in:(a.inner m) = a.Rec;", to: " in:(a.inner m) t:int = a.Rec;"},
	{name: "append-unmasked-function-argument", from: "@read a.simple x:int = Int;", to: "@read a.simple x:int y:int = Int;"},
	{name: "bare-used-type-becomes-union", from: "a.boxed1 q:int = a.Boxed;", to: "a.boxed1 q:int = a.Boxed;\na.plain2 = a.Plain;"},
}

func verifLintParse(text string) []*tlast.Combinator {
	tl, err := tlast.ParseTLFile(text, "s.tl", tlast.LexerOptions{LexerLanguage: tlast.TL1})
	if err != nil {
		panic("harness schema does not parse: " + err.Error())
	}
	return tl.Combinators()
}

// verifLintBits replaces the placeholder bit numbers by the shared symbolic bits
func verifLintBits(tl []*tlast.Combinator, bits map[uint32]uint32) {
	for _, c := range tl {
		for i := range c.Fields {
			if m := c.Fields[i].Mask; m != nil {
				if b, ok := bits[m.BitNumber]; ok {
					m.BitNumber = b
				}
			}
		}
	}
}

func verifLintRun(c verifLintCase) (accepted bool, bits map[uint32]uint32) {
	newText := verifLintBase
	if c.from != "" {
		if !strings.Contains(verifLintBase, c.from) {
			panic("harness: edit anchor not found: " + c.name)
		}
		newText = strings.Replace(verifLintBase, c.from, c.to, 1)
	}
	oldTL, newTL := verifLintParse(verifLintBase), verifLintParse(newText)
	bits = map[uint32]uint32{}
	for _, k := range []uint32{11, 12, 13, 14, 15, 20} {
		b := verifU32()
		verifAssume(b < 32)
		bits[k] = b
	}
	verifLintBits(oldTL, bits)
	verifLintBits(newTL, bits)
	err := CheckBackwardCompatibility(newTL, oldTL)
	return err == nil, bits
}

func VerifC29Safe() {
	c := verifSafeCases[verifChoice(len(verifSafeCases))]
	accepted, bits := verifLintRun(c)
	if c.accept == 1 {
		verifCover("safe-edit")
		verifAssert(accepted, "safe-edit-accepted:"+c.name)
		return
	}
	unused := true
	for _, k := range c.usedBy {
		unused = verifAnd(unused, bits[uint32(k)] != bits[20])
	}
	verifCover("append-on-bit")
	// accepted exactly when the new bit has no meaning yet (C29: unused => accepted; C30: used => rejected)
	verifAssert(verifImplies(unused, accepted), "append-on-unused-bit-accepted:"+c.name)
	verifAssert(verifImplies(!unused, !accepted), "append-on-used-bit-rejected:"+c.name)
}

func VerifC30Unsafe() {
	c := verifUnsafeCases[verifChoice(len(verifUnsafeCases))]
	accepted, bits := verifLintRun(c)
	verifCover("unsafe-edit")
	switch c.accept {
	case 3: // bit changed: unsafe whenever the new bit differs from the old one
		verifAssert(verifImplies(bits[20] != bits[14], !accepted), "unsafe-edit-rejected:"+c.name)
	case 4:
		verifAssert(verifImplies(bits[20] != bits[15], !accepted), "unsafe-edit-rejected:"+c.name)
	default:
		verifAssert(!accepted, "unsafe-edit-rejected:"+c.name)
	}
}
