//go:build verif

package tlcodegen

import (
	"github.com/VKCOM/tl/internal/tlast"
)

func init() {
	verifRegister("VerifC24Legacy", VerifC24Legacy)
}

func verifC24Pos() tlast.PositionRange {
	tl, _ := tlast.ParseTLFile("a = A;", "x.tl", tlast.LexerOptions{LexerLanguage: tlast.TL1})
	return tl.CS[0].C.PR
}

// VerifC24Legacy: checkTagCollisions(tl) == nil  <=>  all tags non-zero and pairwise distinct (all 2^32 values per tag).
func VerifC24Legacy() {
	n := verifLen(verifParam("combs", 4))
	pr := verifC24Pos()
	ids := make([]uint32, n)
	var tl []*tlast.Combinator
	for i := 0; i < n; i++ {
		ids[i] = verifU32()
		c := &tlast.Combinator{}
		c.Construct.ID = ids[i]
		c.Construct.IDExplicit = verifBool()
		c.IsFunction = verifBool()
		c.Construct.Name.Name = "c" + string(rune('a'+i))
		c.Construct.IDPR, c.Construct.NamePR, c.PR = pr, pr, pr
		tl = append(tl, c)
	}
	err := checkTagCollisions(tl)
	ok := true
	for i := 0; i < n; i++ {
		ok = verifAnd(ok, ids[i] != 0)
		for j := 0; j < i; j++ {
			ok = verifAnd(ok, ids[i] != ids[j])
		}
	}
	if err == nil {
		verifCover("accepted")
	} else {
		verifCover("rejected")
	}
	verifAssert((err == nil) == ok, "accepted-iff-tags-nonzero-and-distinct")
}
