//go:build verif

package tlast

func init() {
	verifRegister("VerifC25Listing", VerifC25Listing)
	verifRegister("VerifC21RoundTrip", VerifC21RoundTrip)
	verifRegister("VerifC23Tags", VerifC23Tags)
	verifRegister("VerifC25Canonical", VerifC25Canonical)
}

var verifC21Skeletons = []string{
	"int#a8509bda ? = Int;\nvector#1cb5c415 {t:Type} # [t] = Vector t;\ntuple {t:Type} {n:#} [t] = Tuple t n;\n",
	"a.foo#1234abcd {t:Type} {n:#} m:# x:m.3?int y:m.31?%(Vector t) z:n*[int] = a.Foo t n;\n",
	"b.bar u:# v:u.0?%True w:(Tuple int 3) q:(1 + 2)*[ a:int b:[string] ] r:[%b.Bar] = b.Bar;\nb.baz = b.Bar;\n",
	"---functions---\n@read @any f.get#0badf00d m:# k:m.7?long x:!X s:(Tuple (Vector int) (2 + 3)) = Maybe f.Res;\n---types---\nc.d n:# t:n*[n*[%c.D]] = c.D;\n",
	// a field carrying both a field mask and the ! marker (top level and inside a repetition), bare % inside masks, nested arithmetic
	"---functions---\n@write g.put#0badf11d {X:Type} fields_mask:# query:fields_mask.1?!X n:# rep:n*[ fields_mask.2?!X ] w:fields_mask.3?%(Vector int) = g.Res;\n---types---\ng.arr a:(2 + 3)*[int] b:(1 + (1 + 3))*[ c:int ] = g.Arr;\n",
}

func verifSymFields(fs []Field) {
	for i := range fs {
		f := &fs[i]
		if f.Mask != nil {
			f.Mask.BitNumber = verifU32()
			verifAssume(f.Mask.BitNumber < uint32(verifParam("maxbit", 32)))
		}
		if f.IsRepeated {
			if f.ScaleRepeat.ExplicitScale && f.ScaleRepeat.Scale.IsArith {
				verifSymArith(&f.ScaleRepeat.Scale.Arith)
			}
			verifSymFields(f.ScaleRepeat.Rep)
		} else {
			verifSymType(&f.FieldType)
		}
	}
}

// verifFlattenArith rewrites every arithmetic sum into the single number it evaluates to; reports whether anything changed
func verifFlattenArith(fs []Field) bool {
	ch := false
	for i := range fs {
		f := &fs[i]
		if f.IsRepeated {
			if f.ScaleRepeat.ExplicitScale && f.ScaleRepeat.Scale.IsArith && len(f.ScaleRepeat.Scale.Arith.Nums) > 1 {
				f.ScaleRepeat.Scale.Arith.Nums = []uint32{f.ScaleRepeat.Scale.Arith.Res}
				ch = true
			}
			ch = verifFlattenArith(f.ScaleRepeat.Rep) || ch
		} else {
			ch = verifFlattenArithType(&f.FieldType) || ch
		}
	}
	return ch
}

func verifFlattenArithType(t *TypeRef) bool {
	ch := false
	for i := range t.Args {
		if t.Args[i].IsArith {
			if len(t.Args[i].Arith.Nums) > 1 {
				t.Args[i].Arith.Nums = []uint32{t.Args[i].Arith.Res}
				ch = true
			}
		} else {
			ch = verifFlattenArithType(&t.Args[i].T) || ch
		}
	}
	return ch
}

func verifSymArith(a *Arithmetic) {
	sum := uint64(0)
	for i := range a.Nums {
		a.Nums[i] = verifU32()
		if m := verifParam("maxnum", 0); m > 0 {
			verifAssume(a.Nums[i] <= uint32(m)) // fewer digit-count classes (one path per digit count of each number)
		}
		sum += uint64(a.Nums[i])
	}
	verifAssume(sum < 1<<32-1) // the parser rejects sums >= math.MaxUint32, so larger ones are not parse-reachable
	a.Res = uint32(sum)
}

func verifSymType(t *TypeRef) {
	for i := range t.Args {
		if t.Args[i].IsArith {
			verifSymArith(&t.Args[i].Arith)
		} else {
			verifSymType(&t.Args[i].T)
		}
	}
}

// verifSymbolize: every number of the parsed schema becomes a symbolic value (explicit tags, mask bits, arithmetic)
func verifSymbolize(tl *TL) {
	for _, c := range tl.Combinators() {
		verifSymFields(c.Fields)
		if c.IsFunction {
			verifSymType(&c.FuncDecl)
		}
		if c.Construct.IDExplicit {
			c.Construct.ID = verifU32()
		} else {
			c.Construct.ID = c.crc32()
		}
	}
}

func verifEqName(a, b Name, id string) {
	verifAssert(a.Namespace == b.Namespace && a.Name == b.Name, id)
}

// the canonical listing (C25) writes arithmetic as its value: only the value is compared there
var verifArithValueOnly bool

func verifEqArith(a, b Arithmetic) {
	if verifArithValueOnly {
		verifAssert(a.Res == b.Res, "arith-value")
		return
	}
	verifAssert(len(a.Nums) == len(b.Nums), "arith-same-terms")
	if len(a.Nums) == len(b.Nums) {
		for i := range a.Nums {
			verifAssert(a.Nums[i] == b.Nums[i], "arith-number")
		}
	}
	verifAssert(a.Res == b.Res, "arith-value")
}

func verifEqType(a, b TypeRef) {
	verifEqName(a.Type, b.Type, "type-name")
	verifAssert(a.Bare == b.Bare, "type-bareness")
	verifAssert(len(a.Args) == len(b.Args), "type-arg-count")
	if len(a.Args) != len(b.Args) {
		return
	}
	for i := range a.Args {
		verifAssert(a.Args[i].IsArith == b.Args[i].IsArith, "type-arg-kind")
		if a.Args[i].IsArith && b.Args[i].IsArith {
			verifEqArith(a.Args[i].Arith, b.Args[i].Arith)
		} else if !a.Args[i].IsArith && !b.Args[i].IsArith {
			verifEqType(a.Args[i].T, b.Args[i].T)
		}
	}
}

func verifEqFields(a, b []Field) {
	verifAssert(len(a) == len(b), "field-count")
	if len(a) != len(b) {
		return
	}
	for i := range a {
		x, y := a[i], b[i]
		verifAssert(x.FieldName == y.FieldName, "field-name")
		verifAssert((x.Mask == nil) == (y.Mask == nil), "field-mask-presence")
		if x.Mask != nil && y.Mask != nil {
			verifAssert(x.Mask.MaskName == y.Mask.MaskName, "field-mask-name")
			verifAssert(x.Mask.BitNumber == y.Mask.BitNumber, "field-mask-bit")
		}
		verifAssert(x.Excl == y.Excl, "field-exclamation")
		verifAssert(x.IsRepeated == y.IsRepeated, "field-repetition")
		if x.IsRepeated && y.IsRepeated {
			verifAssert(x.ScaleRepeat.ExplicitScale == y.ScaleRepeat.ExplicitScale, "repeat-explicit-scale")
			if x.ScaleRepeat.ExplicitScale && y.ScaleRepeat.ExplicitScale {
				verifAssert(x.ScaleRepeat.Scale.IsArith == y.ScaleRepeat.Scale.IsArith, "repeat-scale-kind")
				if x.ScaleRepeat.Scale.IsArith && y.ScaleRepeat.Scale.IsArith {
					verifEqArith(x.ScaleRepeat.Scale.Arith, y.ScaleRepeat.Scale.Arith)
				} else {
					verifAssert(x.ScaleRepeat.Scale.Scale == y.ScaleRepeat.Scale.Scale, "repeat-scale-name")
				}
			}
			verifEqFields(x.ScaleRepeat.Rep, y.ScaleRepeat.Rep)
		} else if !x.IsRepeated && !y.IsRepeated {
			verifEqType(x.FieldType, y.FieldType)
		}
	}
}

func verifEqCombinator(a, b *Combinator, tags bool) {
	verifEqName(a.Construct.Name, b.Construct.Name, "constructor-name")
	if tags {
		same := verifAnd(a.Construct.ID == b.Construct.ID, a.Construct.IDExplicit == b.Construct.IDExplicit)
		zero := verifAnd(a.Construct.IDExplicit, a.Construct.ID == 0)
		verifAssert(verifImplies(!zero, same), "tag-and-explicitness")
		verifAssert(verifImplies(zero, same), "explicit-zero-tag-preserved")
	}
	verifAssert(a.IsFunction == b.IsFunction, "function-ness")
	verifAssert(a.Builtin == b.Builtin, "builtin-ness")
	verifAssert(len(a.Modifiers) == len(b.Modifiers), "annotation-count")
	if len(a.Modifiers) == len(b.Modifiers) {
		for i := range a.Modifiers {
			verifAssert(a.Modifiers[i].Name == b.Modifiers[i].Name, "annotation")
		}
	}
	verifAssert(len(a.TemplateArguments) == len(b.TemplateArguments), "template-arg-count")
	if len(a.TemplateArguments) == len(b.TemplateArguments) {
		for i := range a.TemplateArguments {
			verifAssert(a.TemplateArguments[i].FieldName == b.TemplateArguments[i].FieldName && a.TemplateArguments[i].IsNat == b.TemplateArguments[i].IsNat, "template-arg")
		}
	}
	verifEqFields(a.Fields, b.Fields)
	if a.IsFunction && b.IsFunction {
		verifEqType(a.FuncDecl, b.FuncDecl)
	} else if !a.IsFunction && !b.IsFunction {
		verifEqName(a.TypeDecl.Name, b.TypeDecl.Name, "result-type-name")
		verifAssert(len(a.TypeDecl.Arguments) == len(b.TypeDecl.Arguments), "result-type-arg-count")
		if len(a.TypeDecl.Arguments) == len(b.TypeDecl.Arguments) {
			for i := range a.TypeDecl.Arguments {
				verifAssert(a.TypeDecl.Arguments[i] == b.TypeDecl.Arguments[i], "result-type-arg")
			}
		}
	}
}

func verifSkeleton() *TL {
	var text string
	if k := verifParam("skel", -1); k >= 0 {
		text = verifC21Skeletons[k%len(verifC21Skeletons)]
	} else {
		text = verifC21Skeletons[verifChoice(len(verifC21Skeletons))]
	}
	tl, err := ParseTLFile(text, "s.tl", LexerOptions{LexerLanguage: TL1, AllowBuiltin: false})
	if err != nil {
		panic("harness skeleton does not parse: " + err.Error())
	}
	verifSymbolize(tl)
	return tl
}

// VerifC21RoundTrip: print (real quicktemplate printer), parse, compare — for ALL values of tags, bits and arithmetic.
func VerifC21RoundTrip() {
	verifArithValueOnly = false
	tl := verifSkeleton()
	text := tl.String()
	tl2, err := ParseTLFile(text, "p.tl", LexerOptions{LexerLanguage: TL1})
	verifCover("printed")
	verifAssert(err == nil, "printed-schema-parses")
	if err != nil {
		return
	}
	a, b := tl.Combinators(), tl2.Combinators()
	verifAssert(len(a) == len(b), "same-number-of-combinators")
	if len(a) != len(b) {
		return
	}
	for i := range a {
		verifEqCombinator(a[i], b[i], true)
	}
}

// VerifC23Tags: explicit tags are used verbatim; implicit tags are the CRC32 of the canonical form and do not depend on
// layout: the same combinator reparsed from a text with different whitespace/comments/line breaks gets the same tag.
func VerifC23Tags() {
	tl := verifSkeleton()
	all := tl.Combinators()
	for _, c := range all[verifChoice(len(all)):][:1] { // one combinator per path
		// relayout: the printed one-line form with every single space replaced by a varied separator
		one := c.String()
		var alt []byte
		k := 0
		for i := 0; i < len(one); i++ {
			if one[i] == ' ' {
				switch k % 4 {
				case 0:
					alt = append(alt, ' ', ' ')
				case 1:
					alt = append(alt, '\n', '\t')
				case 2:
					alt = append(alt, " // c\n"...)
				default:
					alt = append(alt, ' ')
				}
				k++
				continue
			}
			alt = append(alt, one[i])
		}
		prefix := ""
		if c.IsFunction {
			prefix = "---functions---\n"
		}
		t1, e1 := ParseTLFile(prefix+one, "a.tl", LexerOptions{LexerLanguage: TL1})
		t2, e2 := ParseTLFile(prefix+string(alt), "b.tl", LexerOptions{LexerLanguage: TL1})
		verifCover("relayout")
		verifAssert(e1 == nil && e2 == nil, "both-layouts-parse")
		if e1 != nil || e2 != nil {
			continue
		}
		c1, c2 := t1.Combinators()[0], t2.Combinators()[0]
		verifAssert(c1.Construct.ID == c2.Construct.ID, "tag-independent-of-layout")
		verifAssert(c1.canonicalForm() == c2.canonicalForm(), "canonical-form-independent-of-layout")
		// documented rule: arithmetic is replaced by its value - the same combinator with every sum written as the single number it
		// evaluates to has the same canonical form (and hence the same implicit tag)
		if t3, e3 := ParseTLFile(prefix+one, "c.tl", LexerOptions{LexerLanguage: TL1}); e3 == nil {
			c3 := t3.Combinators()[0]
			if verifFlattenArith(c3.Fields) || (c3.IsFunction && verifFlattenArithType(&c3.FuncDecl)) {
				verifCover("arithmetic-flattened")
				verifAssert(c3.canonicalForm() == c1.canonicalForm(), "arithmetic-replaced-by-its-value-in-canonical-form")
			}
		}
		if c.Construct.IDExplicit {
			verifAssert(verifImplies(c.Construct.ID != 0, c1.Construct.ID == c.Construct.ID), "explicit-tag-used-verbatim")
		} else {
			verifAssert(!c1.Construct.IDExplicit && c1.Construct.ID == c1.crc32(), "implicit-tag-is-crc-of-canonical-form")
		}
	}
}

// scalar and branch-only: merged into one term by the engine (no fork per hex digit)
func verifNib(ch byte) uint32 {
	if ch >= '0' && ch <= '9' {
		return uint32(ch - '0')
	}
	if ch >= 'a' && ch <= 'f' {
		return uint32(ch-'a') + 10
	}
	return 255
}

func verifTypeApplied(t TypeRef) bool { return len(t.Args) != 0 }

func verifFieldsApplied(fs []Field) bool {
	for _, f := range fs {
		if f.IsRepeated {
			if verifFieldsApplied(f.ScaleRepeat.Rep) {
				return true
			}
		} else if verifTypeApplied(f.FieldType) {
			return true
		}
	}
	return false
}

// VerifC25Listing: the WHOLE listing (TL.Generate2TL) has exactly one line per constructor and function of the schema, carrying
// its effective tag, in schema order after the five fixed builtin-wrapper lines - also for namespaced combinators whose local
// names coincide with the builtin wrappers' names. Explicit tags symbolic.
func VerifC25Listing() {
	text := "int#a8509bda ? = Int;\nlong#22076cba ? = Long;\nstring#b5286e24 ? = String;\ngeo.int#11223344 v:int = geo.Int;\ntext.string#00000007 s:string = text.String;\nbig.long {n:#} v:n*[long] = big.Long n;\nplain.a x:int = plain.A;\n---functions---\n@read geo.long#55667788 x:int = geo.Int;\n@any geo.double x:int = Int;\n"
	tl, err := ParseTLFile(text, "s.tl", LexerOptions{LexerLanguage: TL1, AllowBuiltin: true})
	if err != nil {
		panic("harness skeleton does not parse: " + err.Error())
	}
	for _, c := range tl.Combinators() {
		if c.Construct.IDExplicit && !c.Builtin {
			c.Construct.ID = verifU32()
			verifAssume(c.Construct.ID != 0)
		}
	}
	listing := tl.Generate2TL()
	var lines []string
	start := 0
	for i := 0; i < len(listing); i++ {
		if listing[i] == '\n' {
			lines = append(lines, listing[start:i])
			start = i + 1
		}
	}
	verifCover("listed")
	want := 5
	for _, c := range tl.Combinators() {
		if c.Builtin {
			continue // the five wrappers are the fixed header lines
		}
		want++
		head := c.canonicalFormWithTag()
		found := 0
		for _, l := range lines {
			if len(l) >= len(head) && l[:len(head)] == head {
				found++
			}
		}
		verifAssert(found == 1, "listing-has-exactly-one-line-per-combinator:"+c.Construct.Name.String())
	}
	verifAssert(len(lines) == want, "listing-has-no-other-lines")
}

// VerifC25Canonical: one line per combinator carrying its effective tag; each line + ';' re-parses to the same combinator.
func VerifC25Canonical() {
	verifArithValueOnly = true
	tl := verifSkeleton()
	all := tl.Combinators()
	for _, c := range all[verifChoice(len(all)):][:1] { // one combinator per path
		line := c.canonicalFormWithTag()
		// the line starts with [annotations] name#%08x of the effective tag
		hash := -1
		for i := 0; i < len(line); i++ {
			if line[i] == '#' {
				hash = i
				break
			}
		}
		verifCover("canonical-line")
		verifAssert(hash > 0 && hash+9 <= len(line), "line-has-a-tag")
		if hash > 0 && hash+9 <= len(line) {
			var v uint32
			okHex := true
			for k := 1; k <= 8; k++ {
				nib := verifNib(line[hash+k])
				okHex = verifAnd(okHex, nib < 16)
				v = v<<4 | (nib & 15)
			}
			verifAssert(okHex && v == c.Construct.ID, "line-carries-the-effective-tag")
		}
		prefix := ""
		if c.IsFunction {
			prefix = "---functions---\n"
		}
		t2, err := ParseTLFile(prefix+line+";", "c.tl", LexerOptions{LexerLanguage: TL1})
		applied := verifFieldsApplied(c.Fields) || (c.IsFunction && verifTypeApplied(c.FuncDecl))
		if applied {
			// the canonical (CRC) form drops the parentheses of applied types: recorded separately
			verifAssert(err == nil && len(t2.Combinators()) == 1 && len(t2.Combinators()[0].Fields) == len(c.Fields), "canonical-line-with-applied-types-reparses")
			continue
		}
		verifAssert(err == nil, "canonical-line-parses")
		if err != nil {
			continue
		}
		cs := t2.Combinators()
		verifAssert(len(cs) == 1, "one-combinator-per-line")
		if len(cs) != 1 {
			continue
		}
		verifAssert(cs[0].Construct.ID == c.Construct.ID, "reparsed-tag-is-the-effective-tag")
		verifEqCombinator(c, cs[0], false)
	}
}
