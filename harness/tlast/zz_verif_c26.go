//go:build verif

package tlast

import (
	tls "github.com/VKCOM/tl/internal/tlast/gentlo/tltls"
)

func init() { verifRegister("VerifC26TLO", VerifC26TLO) }

var verifC26Skeletons = []string{
	"int#a8509bda ? = Int;\nlong#22076cba ? = Long;\na.one x:int = a.U;\na.two y:long = a.U;\na.three = a.U;\na.s {t:Type} {n:#} v:t = a.S t n;\na.r {n:#} {t:Type} w:n*[t] = a.R n t;\n---functions---\n@read a.get q:int = a.U;\n@write a.put z:a.U = a.S int 3;\n",
	// namespaced combinators whose local names coincide with the builtin wrappers' names
	"int#a8509bda ? = Int;\nlong#22076cba ? = Long;\nstring#b5286e24 ? = String;\nstats.string value:string = stats.String;\nstats.long v:long n:int = stats.Long;\nstats.int = stats.Int;\n---functions---\n@read stats.double x:int = stats.Long;\n",
	"int#a8509bda ? = Int;\nb.x m:# f:m.0?int g:m.1?%b.x = b.X;\nb.y {X:Type} q:!X = b.Y;\nb.z1 = b.Z;\nb.z2 k:b.X = b.Z;\n---functions---\n@any b.f n:# = b.Z;\n",
}

// VerifC26TLO: tags and version symbolic on concrete schema skeletons.
func VerifC26TLO() {
	var text string
	if k := verifParam("skel", -1); k >= 0 {
		text = verifC26Skeletons[k%len(verifC26Skeletons)]
	} else {
		text = verifC26Skeletons[verifChoice(len(verifC26Skeletons))]
	}
	tl, err := ParseTLFile(text, "s.tl", LexerOptions{LexerLanguage: TL1})
	if err != nil {
		panic("harness skeleton does not parse: " + err.Error())
	}
	cs := tl.Combinators()
	for i, c := range cs {
		if c.Builtin {
			continue // builtin wrappers have fixed TLO entries
		}
		c.Construct.ID = verifU32()
		verifAssume(c.Construct.ID != 0)
		for j := 0; j < i; j++ {
			verifAssume(cs[j].Construct.ID != c.Construct.ID) // accepted schemas have unique non-zero tags (C24)
		}
	}
	version := verifU32()
	verifAssume(version != 0) // 0 means "now"
	s, err := tl.GenerateTLO(version)
	// type name = XOR of the constructor tags; an error is legitimate only for a collision of those names
	typeXor := map[string]uint32{}
	typeCnt := map[string]int32{}
	var typeOrder []string
	for _, c := range cs {
		if c.IsFunction {
			continue
		}
		n := c.TypeDecl.Name.String()
		if _, ok := typeXor[n]; !ok {
			typeOrder = append(typeOrder, n)
		}
		typeXor[n] ^= c.Construct.ID
		typeCnt[n]++
	}
	if err != nil {
		verifCover("collision")
		collide := false
		for i, a := range typeOrder {
			collide = verifOr(collide, verifOr(typeXor[a] == 0x70659eff, typeXor[a] == 0x2cecf817))
			for _, b := range typeOrder[:i] {
				collide = verifOr(collide, typeXor[a] == typeXor[b])
			}
		}
		verifAssert(collide, "error-only-for-a-type-name-collision")
		return
	}
	verifCover("generated")
	verifAssert(uint32(s.Version) == version && uint32(s.Date) == version, "version-and-date")
	verifAssert(int(s.TypesNum) == len(s.Types) && int(s.ConstructorNum) == len(s.Constructors) && int(s.FunctionsNum) == len(s.Functions), "counts-match-lists")
	// every constructor and function exactly once, with its tag and name
	for _, c := range cs {
		if c.Builtin {
			// builtin wrappers have fixed TLO entries: still exactly one entry under their own name and tag
			found := 0
			for _, e := range s.Constructors {
				if v4, ok := e.AsV4(); ok && v4.Id == c.Construct.Name.String() {
					found++
					verifAssert(uint32(v4.Name) == c.Construct.ID, "builtin-carries-its-tag")
				}
			}
			verifAssert(found == 1, "builtin-listed-exactly-once")
			continue
		}
		list := s.Constructors
		if c.IsFunction {
			list = s.Functions
		}
		found := 0
		for _, e := range list {
			v4, ok := e.AsV4()
			if !ok {
				continue
			}
			if v4.Id == c.Construct.Name.String() {
				found++
				verifAssert(uint32(v4.Name) == c.Construct.ID, "combinator-carries-its-tag")
				if !c.IsFunction {
					verifAssert(uint32(v4.TypeName) == typeXor[c.TypeDecl.Name.String()], "constructor-points-to-its-type")
				}
			}
		}
		verifAssert(found == 1, "combinator-listed-exactly-once")
	}
	nFun := 0
	for _, c := range cs {
		if c.IsFunction {
			nFun++
		}
	}
	verifAssert(len(s.Functions) == nFun && len(s.Constructors) == len(cs)-nFun, "no-extra-combinators")
	// every type with arity, parameter kinds, constructor count and name = XOR of constructor tags
	for _, n := range typeOrder {
		found := 0
		for _, t := range s.Types {
			if t.Id != n {
				continue
			}
			found++
			verifAssert(uint32(t.Name) == typeXor[n], "type-name-is-xor-of-constructor-tags")
			verifAssert(t.ConstructorsNum == typeCnt[n], "type-constructor-count")
			for _, c := range cs {
				if !c.IsFunction && c.TypeDecl.Name.String() == n {
					verifAssert(int(t.Arity) == len(c.TypeDecl.Arguments), "type-arity")
					var pt int64
					for i, a := range c.TemplateArguments {
						if a.IsNat {
							pt |= 1 << uint(i)
						}
					}
					verifAssert(t.ParamsType == pt, "type-parameter-kinds")
					break
				}
			}
		}
		verifAssert(found == 1, "type-listed-exactly-once")
	}
	verifAssert(len(s.Types) == len(typeOrder)+2, "types-are-the-schema-types-plus-nat-and-Type")
	// the TLO bytes decode back to the same description
	w, err := s.WriteTL1Boxed(nil)
	verifAssert(err == nil, "tlo-serialises")
	if err != nil {
		return
	}
	var back tls.SchemaV4
	rest, err := back.ReadTL1Boxed(w)
	verifAssert(err == nil && len(rest) == 0, "tlo-bytes-decode")
	if err != nil {
		return
	}
	w2, err := back.WriteTL1Boxed(nil)
	verifAssert(err == nil && verifBytesEq(w, w2), "tlo-decodes-to-the-same-description")
}
