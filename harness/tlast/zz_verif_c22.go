//go:build verif

package tlast

import "strings"

func init() { verifRegister("VerifC22Format", VerifC22Format) }

var verifC22Skeletons = []string{
	"a.point = x:int32 y?:int32;\na.u = one x:int32 | two | three a.point;\na.al <=> int64;\n",
	"@read a.get#8ef1d9d6 id:int64 _:int32 => []a.point;\n@write a.set#8ef1d9d7 p:a.point => ;\na.p<x:Type,n:#> = v:[n]x m:[string]x w:[3][]a.p<int32,5>;\n",
	"// leading comment\na.c#0badcafe = // right comment\n  f1:int32 // c1\n  f2?:string;\na.e = red | green | blue;\na.empty = ;\n",
}

func verifSymTL2Type(t *TL2TypeRef) {
	if t.BracketType != nil {
		if t.BracketType.HasIndex {
			verifSymTL2Arg(&t.BracketType.IndexType)
		}
		verifSymTL2Type(&t.BracketType.ArrayType)
		return
	}
	for i := range t.SomeType.Arguments {
		verifSymTL2Arg(&t.SomeType.Arguments[i])
	}
}

func verifSymTL2Arg(a *TL2TypeArgument) {
	if a.IsNumber {
		a.Number = verifU32()
		if m := verifParam("maxnum", 0); m > 0 {
			verifAssume(a.Number <= uint32(m))
		}
		return
	}
	verifSymTL2Type(&a.Type)
}

func verifSymTL2Fields(fs []TL2Field) {
	for i := range fs {
		verifSymTL2Type(&fs[i].Type)
	}
}

func verifSymTL2Def(d *TL2TypeDefinition) {
	if d.IsTypeAlias {
		verifSymTL2Type(&d.TypeAlias)
		return
	}
	if d.StructType.IsUnionType {
		for i := range d.StructType.UnionType.Variants {
			v := &d.StructType.UnionType.Variants[i]
			if v.IsTypeAlias {
				verifSymTL2Type(&v.TypeAlias)
			} else {
				verifSymTL2Fields(v.Fields)
			}
		}
		return
	}
	verifSymTL2Fields(d.StructType.ConstructorFields)
}

// every number of the file (explicit magics, array sizes, numeric template arguments) becomes symbolic
func verifSymTL2(f *TL2File) {
	for i := range f.Combinators {
		c := &f.Combinators[i]
		if c.IsFunction {
			c.FuncDecl.Magic = verifU32()
			verifAssume(c.FuncDecl.Magic != 0)
			verifSymTL2Fields(c.FuncDecl.Arguments)
			verifSymTL2Def(&c.FuncDecl.ReturnType)
		} else {
			if c.TypeDecl.Magic != 0 {
				c.TypeDecl.Magic = verifU32()
				verifAssume(c.TypeDecl.Magic != 0)
			}
			verifSymTL2Def(&c.TypeDecl.Type)
		}
	}
}

func verifPrintTL2(f TL2File, canonical bool) string {
	sb := strings.Builder{}
	if canonical {
		f.Print(&sb, NewCanonicalFormatOptions())
	} else {
		f.Print(&sb, NewDefaultFormatOptions())
	}
	return sb.String()
}

// VerifC22Format: format -> parse -> format is the identity on the text (idempotence) under both option sets, and the
// re-parsed file prints canonically like the original (same declarations).
func VerifC22Format() {
	var text string
	if k := verifParam("skel", -1); k >= 0 {
		text = verifC22Skeletons[k%len(verifC22Skeletons)]
	} else {
		text = verifC22Skeletons[verifChoice(len(verifC22Skeletons))]
	}
	f, err := ParseTL2File(text, "s.tl2", LexerOptions{LexerLanguage: TL2})
	if err != nil {
		panic("harness skeleton does not parse: " + err.Error())
	}
	verifSymTL2(&f)
	canonical := verifBool()
	s1 := verifPrintTL2(f, canonical)
	f2, err := ParseTL2File(s1, "p.tl2", LexerOptions{LexerLanguage: TL2})
	verifCover("formatted")
	verifAssert(err == nil, "formatted-text-parses")
	if err != nil {
		return
	}
	verifAssert(len(f2.Combinators) == len(f.Combinators), "same-number-of-declarations")
	s2 := verifPrintTL2(f2, canonical)
	verifAssert(s2 == s1, "formatting-is-idempotent")
	verifAssert(verifPrintTL2(f2, true) == verifPrintTL2(f, true), "same-declarations-in-canonical-print")
	if len(f2.Combinators) == len(f.Combinators) {
		for i := range f.Combinators {
			a, b := f.Combinators[i], f2.Combinators[i]
			verifAssert(a.IsFunction == b.IsFunction, "function-ness")
			if a.IsFunction && b.IsFunction {
				verifAssert(a.FuncDecl.Magic == b.FuncDecl.Magic && a.FuncDecl.Name == b.FuncDecl.Name, "function-name-and-magic")
				verifAssert(len(a.FuncDecl.Arguments) == len(b.FuncDecl.Arguments), "function-arity")
			} else if !a.IsFunction && !b.IsFunction {
				verifAssert(a.TypeDecl.Magic == b.TypeDecl.Magic && a.TypeDecl.Name == b.TypeDecl.Name, "type-name-and-magic")
			}
			verifAssert(len(a.Annotations) == len(b.Annotations), "annotations")
		}
	}
}
