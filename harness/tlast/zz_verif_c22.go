//go:build verif

package tlast

import "strings"

func init() {
	verifRegister("VerifC22Format", VerifC22Format)
	verifRegister("VerifC22Comments", VerifC22Comments)
}

// VerifC22Comments: comment CONTENT symbolic (every byte except line breaks, <= cmtN bytes per line) in the positions the
// grammar attaches comments to; the text is parsed by the real lexer/parser, so only parse-reachable comment strings occur
func VerifC22Comments() {
	n := verifParam("cmtN", 2)
	line := func() string {
		s := verifStringN(verifLen(n))
		for i := 0; i < len(s); i++ {
			verifAssume(s[i] != '\n' && s[i] != '\r')
		}
		return s
	}
	var text string
	switch verifChoice(3) {
	case 0: // two-line comment before a union variant, one line before a variant field, right comment
		text = "a.u =\n    //" + line() + "\n    //" + line() + "\n    | one\n        //" + line() + "\n        x:int32 //" + line() + "\n    | two;\n"
	case 1: // combinator comment, struct field comments
		text = "//" + line() + "\n//" + line() + "\na.s = //" + line() + "\n    //" + line() + "\n    //" + line() + "\n    f1:int32\n    f2?:string;\n"
	case 2: // function: argument comments
		text = "//" + line() + "\n@read a.get#8ef1d9d6\n    //" + line() + "\n    //" + line() + "\n    id:int64 //" + line() + "\n    => int32;\n"
	}
	f, err := ParseTL2File(text, "s.tl2", LexerOptions{LexerLanguage: TL2})
	if err != nil {
		verifCover("comment-text-rejected")
		return
	}
	verifC22Check(f, false)
}

var verifC22Skeletons = []string{
	"a.point = x:int32 y?:int32;\na.u = one x:int32 | two | three a.point;\na.al <=> int64;\n",
	"@read a.get#8ef1d9d6 id:int64 _:int32 => []a.point;\n@write a.set#8ef1d9d7 p:a.point => ;\na.p<x:Type,n:#> = v:[n]x m:[string]x w:[3][]a.p<int32,5>;\n",
	"// leading comment\na.c#0badcafe = // right comment\n  f1:int32 // c1\n  f2?:string;\na.e = red | green | blue;\na.empty = ;\n",
	// one- and multi-line comments in every position the grammar attaches them to (combinator, variant, variant field, struct field, argument)
	// unions with a single variant (recognised by the leading bar only): bare, with fields, with an explicit magic, commented, and over the one-line width
	"a.mono = | Green;\na.monof#0badcaf1 = | one x:int32 y?:[3]int32;\n// c\na.monoc =\n    // v\n    | only a.mono;\na.monolong = | theOnlyVariantWithAVeryLongName firstFieldWithALongName:int64 secondFieldWithALongName:[17]string thirdFieldWithALongName?:a.mono fourth:int32;\n",
	// structs, variants and functions with exactly one commented field / argument, and an empty struct with a trailing comment
	"a.single =\n    // only\n    value:string;\na.single2 = v:int32; // r\na.us = | one\n    // f\n    x:int32;\n@read a.f1#8ef1d9d6\n    // arg\n    id:int64\n    => a.single;\n",
	"// top 1\n// top 2\na.u = // eq right\n    // v1 l1\n    // v1 l2\n    | one\n        // f l1\n        //   f l2 indented\n        x:int32 // fr\n        y:int32\n    // v2 l1\n    //\tv2 l2 tabbed\n    //v2 l3 tight\n    | two\n    // v3\n    | three a.point;\n// fn 1\n// fn 2\n@read a.get#8ef1d9d6\n    // arg l1\n    // arg l2\n    id:int64 // ar\n    => int32;\na.point =\n    // s l1\n    // s l2\n    x:int32 // r\n    // t l1\n    //  t l2\n    y?:string;\n",
}

func verifSymTL2Type(t *TL2TypeRef) {
	if t.BracketType != nil {
		if t.BracketType.HasIndex {
			verifSymTL2Arg(&t.BracketType.IndexType)
		}
		verifSymTL2Type(&t.BracketType.ArrayType)
		return
	}
	for i := range t.SomeType.Arguments {
		verifSymTL2Arg(&t.SomeType.Arguments[i])
	}
}

func verifSymTL2Arg(a *TL2TypeArgument) {
	if a.IsNumber {
		a.Number = verifU32()
		if m := verifParam("maxnum", 0); m > 0 {
			verifAssume(a.Number <= uint32(m))
		}
		return
	}
	verifSymTL2Type(&a.Type)
}

func verifSymTL2Fields(fs []TL2Field) {
	for i := range fs {
		verifSymTL2Type(&fs[i].Type)
	}
}

func verifSymTL2Def(d *TL2TypeDefinition) {
	if d.IsTypeAlias {
		verifSymTL2Type(&d.TypeAlias)
		return
	}
	if d.StructType.IsUnionType {
		for i := range d.StructType.UnionType.Variants {
			v := &d.StructType.UnionType.Variants[i]
			if v.IsTypeAlias {
				verifSymTL2Type(&v.TypeAlias)
			} else {
				verifSymTL2Fields(v.Fields)
			}
		}
		return
	}
	verifSymTL2Fields(d.StructType.ConstructorFields)
}

// every number of the file (explicit magics, array sizes, numeric template arguments) becomes symbolic
func verifSymTL2(f *TL2File) {
	for i := range f.Combinators {
		c := &f.Combinators[i]
		if c.IsFunction {
			c.FuncDecl.Magic = verifU32()
			verifAssume(c.FuncDecl.Magic != 0)
			verifSymTL2Fields(c.FuncDecl.Arguments)
			verifSymTL2Def(&c.FuncDecl.ReturnType)
		} else {
			if c.TypeDecl.Magic != 0 {
				c.TypeDecl.Magic = verifU32()
				verifAssume(c.TypeDecl.Magic != 0)
			}
			verifSymTL2Def(&c.TypeDecl.Type)
		}
	}
}

func verifPrintTL2(f TL2File, canonical bool) string {
	sb := strings.Builder{}
	if canonical {
		f.Print(&sb, NewCanonicalFormatOptions())
	} else {
		f.Print(&sb, NewDefaultFormatOptions())
	}
	return sb.String()
}

// VerifC22Format: format -> parse -> format is the identity on the text (idempotence) under both option sets, and the
// re-parsed file prints canonically like the original (same declarations).
func VerifC22Format() {
	var text string
	if k := verifParam("skel", -1); k >= 0 {
		text = verifC22Skeletons[k%len(verifC22Skeletons)]
	} else {
		text = verifC22Skeletons[verifChoice(len(verifC22Skeletons))]
	}
	f, err := ParseTL2File(text, "s.tl2", LexerOptions{LexerLanguage: TL2})
	if err != nil {
		panic("harness skeleton does not parse: " + err.Error())
	}
	verifSymTL2(&f)
	verifC22Check(f, verifBool())
}

func verifC22Check(f TL2File, canonical bool) {
	s1 := verifPrintTL2(f, canonical)
	f2, err := ParseTL2File(s1, "p.tl2", LexerOptions{LexerLanguage: TL2})
	verifCover("formatted")
	verifAssert(err == nil, "formatted-text-parses")
	if err != nil {
		return
	}
	verifAssert(len(f2.Combinators) == len(f.Combinators), "same-number-of-declarations")
	s2 := verifPrintTL2(f2, canonical)
	verifAssert(s2 == s1, "formatting-is-idempotent")
	verifAssert(verifPrintTL2(f2, true) == verifPrintTL2(f, true), "same-declarations-in-canonical-print")
	if len(f2.Combinators) == len(f.Combinators) {
		for i := range f.Combinators {
			a, b := f.Combinators[i], f2.Combinators[i]
			verifAssert(a.IsFunction == b.IsFunction, "function-ness")
			if a.IsFunction && b.IsFunction {
				verifAssert(a.FuncDecl.Magic == b.FuncDecl.Magic && a.FuncDecl.Name == b.FuncDecl.Name, "function-name-and-magic")
				verifAssert(len(a.FuncDecl.Arguments) == len(b.FuncDecl.Arguments), "function-arity")
			} else if !a.IsFunction && !b.IsFunction {
				verifAssert(a.TypeDecl.Magic == b.TypeDecl.Magic && a.TypeDecl.Name == b.TypeDecl.Name, "type-name-and-magic")
			}
			verifAssert(len(a.Annotations) == len(b.Annotations), "annotations")
		}
	}
}
