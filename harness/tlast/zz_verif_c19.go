//go:build verif

package tlast

import (
	"errors"
)

func init() {
	verifRegister("VerifC19ParseTail", VerifC19ParseTail)
	verifRegister("VerifC20ParseTail", VerifC20ParseTail)
	verifRegister("VerifC19Lexer", VerifC19Lexer)
	verifRegister("VerifC20Lexer", VerifC20Lexer)
	verifRegister("VerifC19ParseMutated", VerifC19ParseMutated)
	verifRegister("VerifC20ParseMutated", VerifC20ParseMutated)
	verifRegister("VerifC19PrintError", VerifC19PrintError)
	verifRegister("VerifC19ParseTruncated", VerifC19ParseTruncated)
	verifRegister("VerifC20ParseTruncated", VerifC20ParseTruncated)
}

type verifDiscard struct{ n int }

func (d *verifDiscard) Write(p []byte) (int, error) { d.n += len(p); return len(p), nil }

func verifPosInRange(p Position, n int, id string) {
	verifAssert(p.offset >= 0 && p.offset <= n, id+"-offset-in-text")
	verifAssert(p.startLineOffset >= 0 && p.startLineOffset <= p.offset, id+"-line-start-before-offset")
	verifAssert(p.line >= 1 && p.column >= 1, id+"-line-column-positive")
}

func verifCheckParseError(err error, text string) {
	var pe *ParseError
	if !errors.As(err, &pe) {
		verifAssert(false, "error-carries-a-position")
		return
	}
	n := len(text)
	verifPosInRange(pe.Pos.Begin, n, "begin")
	verifPosInRange(pe.Pos.End, n, "end")
	verifAssert(pe.Pos.Begin.offset <= pe.Pos.End.offset, "begin-before-end")
	// printing the error never panics
	pe.ConsolePrint(&verifDiscard{}, err, false)
	pe.PrintWarning(&verifDiscard{}, nil)
}

func verifLexer(lang LexerLanguage) {
	s := verifStringN(verifLen(verifParam("lexN", 3)))
	opts := LexerOptions{LexerLanguage: lang}
	if lang == TL1 {
		opts.AllowBuiltin = verifBool()
		opts.AllowDirty = verifBool()
	}
	l := newLexer(s, "f.tl", opts)
	toks, err := l.generateTokens()
	verifAssert(l.recombineTokens() == s, "tokens-plus-rest-recombine-to-input")
	if err != nil {
		verifCover("lex-error")
		verifCheckParseError(err, s)
		return
	}
	verifCover("lexed")
	verifAssert(len(toks) >= 1 && toks[len(toks)-1].tokenType == eof, "ends-with-eof")
	off := 0
	for i, t := range toks {
		verifAssert(t.pos.offset == off, "token-offsets-contiguous")
		off += len(t.val)
		if i < len(toks)-1 {
			verifAssert(t.tokenType != eof, "single-eof")
			verifAssert(len(t.val) > 0, "no-empty-token")
		}
		switch t.tokenType {
		case lcIdentNS, ucIdentNS:
			dot := false
			for k := 0; k < len(t.val); k++ {
				dot = dot || t.val[k] == '.'
			}
			verifAssert(dot, "namespaced-identifier-has-a-dot")
		case annotation:
			verifAssert(len(t.val) >= 2 && t.val[0] == '@', "annotation-has-a-name")
		case crc32hash:
			verifAssert(len(t.val) == 9 && t.val[0] == '#', "tag-is-hash-plus-8")
		case number:
			for k := 0; k < len(t.val); k++ {
				verifAssert(t.val[k] >= '0' && t.val[k] <= '9', "number-is-all-digits")
			}
		}
	}
	verifAssert(off == len(s), "tokens-cover-input")
}

func VerifC19Lexer() { verifLexer(TL1) }
func VerifC20Lexer() { verifLexer(TL2) }

var verifTL1Skeletons = []string{
	"foo#1234abcd {t:Type} a:# b:a.1?int c:(vector t) = Foo t;",
	"@any a.b n:# x:n*[int] y:[%(Tuple a.c 3)] = a.B;\n---functions---\n@read f q:!X = (Maybe int);",
	"int#a8509bda ? = Int;\nvector#1cb5c415 {t:Type} # [t] = Vector t;//c\n",
	"u1 = U; u2 m:# f:m.31?%u1 g:(1 + 2)*[int] = U;",
}

var verifTL2Skeletons = []string{
	"a.point = x:int32 y?:int32;\na.u = one x:int32 | two | three a.point;",
	"@read a.get#8ef1d9d6 id:int64 _:int32 => []a.point;\na.al <=> int64;\na.p<x:Type,n:#> = v:[n]x m:[string]x;",
	"// c\na.m#0badcafe = | one x:int32; // r\n@write a.set#8ef1d9d7 p:a.p<int32,5> => ;\na.q<t:Type> <=> []t;",
}

// one or two symbolic bytes substituted / inserted / the text truncated at an enumerated position of a valid schema:
// parsing returns a schema or a positioned error, never panics.
func verifParseMutated(lang LexerLanguage, skeletons []string) {
	// skel < 0: every skeleton; otherwise the one selected by the driver (quick tier rotates with the seed)
	var text string
	if k := verifParam("skel", -1); k >= 0 {
		text = skeletons[k%len(skeletons)]
	} else {
		text = skeletons[verifChoice(len(skeletons))]
	}
	pos := verifChoice(len(text) + 1)
	var s string
	switch verifChoice(3) {
	case 0: // substitute one byte (all 256 values)
		verifAssume(pos < len(text))
		s = text[:pos] + verifStringN(1) + text[pos+1:]
	case 1: // insert m bytes
		s = text[:pos] + verifStringN(verifParam("ins", 1)) + text[pos:]
	case 2: // truncate
		s = text[:pos]
	}
	opts := LexerOptions{LexerLanguage: lang}
	var err error
	if lang == TL1 {
		_, err = ParseTLFile(s, "f.tl", opts)
	} else {
		_, err = ParseTL2File(s, "f.tl2", opts)
	}
	if err == nil {
		verifCover("parsed")
		return
	}
	verifCover("rejected")
	verifCheckParseError(err, s)
}

// every prefix of EVERY skeleton (no rotation: inputs are concrete, so this is cheap): a keyword, number, tag or comment cut
// exactly at the end of the input is where lexers index past the text
func verifParseTruncated(lang LexerLanguage, skeletons []string) {
	text := skeletons[verifChoice(len(skeletons))]
	s := text[:verifChoice(len(text)+1)]
	opts := LexerOptions{LexerLanguage: lang}
	var err error
	if lang == TL1 {
		_, err = ParseTLFile(s, "f.tl", opts)
	} else {
		_, err = ParseTL2File(s, "f.tl2", opts)
	}
	if err == nil {
		verifCover("prefix-parsed")
		return
	}
	verifCover("prefix-rejected")
	verifCheckParseError(err, s)
}

func VerifC19ParseTruncated() { verifParseTruncated(TL1, verifTL1Skeletons) }
func VerifC20ParseTruncated() { verifParseTruncated(TL2, verifTL2Skeletons) }

// parser states reached by a valid prefix, then EVERY byte string of <= tailN bytes, then an optional valid ending: the parser
// is entered in each of its contexts (field start / scale factor, type expression, type application, arithmetic operand,
// template argument, mask bit, repetition, result type, function section, tag) with arbitrary continuation
var verifTL1Contexts = []string{"a ", "a x:", "a x:(b ", "a 1+", "a {", "a n:# x:n.", "a x:3*[", "a = ", "---functions---\n@read f ", "a#", "a x:%", "a x:(b 1 + ", "a x:!"}
var verifTL1Endings = []string{"", " = A;", ") = A;"}
var verifTL2Contexts = []string{"a = ", "a = x:", "a = x:[", "a<", "@read f ", "a = b | ", "a <=> ", "a = x?:", "a#", "a<x:Type> = v:[", "a = x:b<", "@read f x:int32 => "}
var verifTL2Endings = []string{"", ";", "] ;", "> ;"}

func verifParseTail(lang LexerLanguage, contexts, endings []string) {
	s := contexts[verifChoice(len(contexts))] + verifStringN(verifLen(verifParam("tailN", 2))) + endings[verifChoice(len(endings))]
	opts := LexerOptions{LexerLanguage: lang}
	var err error
	if lang == TL1 {
		_, err = ParseTLFile(s, "f.tl", opts)
	} else {
		_, err = ParseTL2File(s, "f.tl2", opts)
	}
	if err == nil {
		verifCover("parsed")
		return
	}
	verifCover("rejected")
	verifCheckParseError(err, s)
}

func VerifC19ParseTail() { verifParseTail(TL1, verifTL1Contexts, verifTL1Endings) }
func VerifC20ParseTail() { verifParseTail(TL2, verifTL2Contexts, verifTL2Endings) }

func VerifC19ParseMutated() { verifParseMutated(TL1, verifTL1Skeletons) }
func VerifC20ParseMutated() { verifParseMutated(TL2, verifTL2Skeletons) }

// ConsolePrint claims to be safe for ANY positions: arbitrary (even inconsistent) offsets over a short text.
func VerifC19PrintError() {
	fc := verifStringN(verifLen(verifParam("printN", 4)))
	mk := func() Position {
		return Position{fileContent: fc, file: "f.tl", line: 1, column: 1, startLineOffset: int(verifI32()), offset: int(verifI32())}
	}
	e := &ParseError{Err: errors.New("x"), Pos: PositionRange{Outer: mk(), Begin: mk(), End: mk()}}
	if verifBool() {
		e.compare = &ParseError{Err: errors.New("y"), Pos: PositionRange{Outer: mk(), Begin: mk(), End: mk()}}
	}
	verifCover("print")
	e.ConsolePrint(&verifDiscard{}, nil, verifBool())
}
