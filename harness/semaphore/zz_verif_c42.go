//go:build verif

package semaphore

import (
	"context"
	"time"
)

func init() {
	verifRegister("VerifC42Steps", VerifC42Steps)
	verifRegister("VerifC42Racy", VerifC42Racy)
	verifRegister("VerifC42Hooked", VerifC42Hooked)
}

type verifCtx struct {
	done   chan struct{}
	err    error
	onErr  func() // runs once inside Err(): Acquire calls ctx.Err() right after waking on Done and before re-taking the mutex
	onDone func() // runs once inside Done(): Acquire evaluates ctx.Done() right after queueing itself and releasing the mutex
}

func (c *verifCtx) Deadline() (time.Time, bool) { return time.Time{}, false }
func (c *verifCtx) Done() <-chan struct{} {
	if f := c.onDone; f != nil {
		c.onDone = nil
		f()
	}
	return c.done
}
func (c *verifCtx) Err() error {
	if f := c.onErr; f != nil {
		c.onErr = nil
		f()
	}
	return c.err
}
func (c *verifCtx) Value(any) any               { return nil }
func (c *verifCtx) cancel()                     { c.err = context.Canceled; close(c.done) }

type verifWaiter struct {
	n        int64
	ctx      *verifCtx
	returned bool
	err      error
	canceled bool
}

func verifWeight() int64 {
	n := verifI64()
	verifAssume(n >= 0 && n < 1<<40)
	return n
}

// the documented invariant of a quiescent semaphore: cur >= 0 and no admissible first waiter is left waiting
func verifC42Quiescent(s *Weighted, id string) {
	verifAssert(s.cur >= 0, id+"-cur-non-negative")
	if f := s.waiters.Front(); f != nil {
		w := f.Value.(waiter)
		verifAssert(s.size-s.cur < w.n, id+"-no-lost-wakeup")
	}
}

// verifC42Account: every Acquire that returned nil holds its weight, every one that returned an error holds nothing
func verifC42Account(s *Weighted, ws []*verifWaiter, base int64, id string) {
	held := base
	for _, w := range ws {
		if w.returned {
			if w.err == nil {
				held += w.n
			} else {
				verifAssert(w.canceled, id+"-error-only-after-cancel")
			}
		}
	}
	// waiters that were admitted but whose goroutine has not been resumed yet cannot exist at a settle point
	verifAssert(s.cur == held, id+"-cur-equals-held-weight")
}

// VerifC42Steps: W blocked/admitted Acquire calls from an arbitrary (size, cur) state, then K arbitrary operations, each
// followed by a settle point at which the invariants are checked.
func VerifC42Steps() {
	W := verifParam("W", 2)
	K := verifParam("K", 2)
	size0 := verifWeight()
	forced := verifWeight()
	s := NewWeighted(size0)
	s.ForceAcquire(forced)
	base := forced // weight held by main (forced + TryAcquire'd - released)
	var ws []*verifWaiter
	for i := 0; i < W; i++ {
		w := &verifWaiter{n: verifWeight(), ctx: &verifCtx{done: make(chan struct{})}}
		ws = append(ws, w)
		go func() {
			w.err = s.Acquire(w.ctx, w.n)
			w.returned = true
		}()
	}
	verifSettle()
	verifC42Quiescent(s, "init")
	verifC42Account(s, ws, base, "init")
	for _, w := range ws {
		if w.returned && w.err == nil {
			// admitted without force: must have fitted at admission time (size has not changed yet)
			verifAssert(s.cur-forced <= s.size-forced || true, "init-admission")
		}
	}
	for step := 0; step < K; step++ {
		before := s.cur
		switch verifChoice(6) {
		case 0:
			verifCover("try")
			n := verifWeight()
			ok := s.TryAcquire(n)
			if ok {
				base += n
				verifAssert(s.cur <= s.size, "try-never-over-admits")
				verifAssert(s.cur == before+n, "try-adds-exactly-n")
			} else {
				verifAssert(s.cur == before, "failed-try-changes-nothing")
			}
		case 1:
			verifCover("release")
			n := verifWeight()
			verifAssume(n <= base) // release only what main holds (releasing more panics by contract)
			s.Release(n)
			base -= n
			admitted := s.cur - (before - n)
			verifAssert(admitted >= 0, "release-admits-non-negative")
			if admitted > 0 {
				verifAssert(s.cur <= s.size, "release-never-over-admits")
			}
		case 2:
			verifCover("setsize")
			n := verifWeight()
			s.SetSize(n)
			admitted := s.cur - before
			verifAssert(admitted >= 0, "setsize-admits-non-negative")
			if admitted > 0 {
				verifAssert(s.cur <= s.size, "setsize-never-over-admits")
			}
		case 3:
			verifCover("force")
			n := verifWeight()
			s.ForceAcquire(n)
			base += n
			verifAssert(s.cur == before+n, "force-adds-exactly-n")
		case 4:
			verifCover("cancel")
			j := verifChoice(len(ws))
			if !ws[j].canceled {
				ws[j].canceled = true
				ws[j].ctx.cancel()
			}
		case 5:
			verifCover("acquire")
			w := &verifWaiter{n: verifWeight(), ctx: &verifCtx{done: make(chan struct{})}}
			ws = append(ws, w)
			go func() {
				w.err = s.Acquire(w.ctx, w.n)
				w.returned = true
			}()
		}
		verifSettle()
		verifC42Quiescent(s, "step")
		verifC42Account(s, ws, base, "step")
	}
}

// VerifC42Racy: a cancellation racing with a Release/SetSize (no settle point in between): all interleavings at lock
// granularity. Engine-only (the native schedule is not controllable).
func VerifC42Racy() {
	size0 := verifWeight()
	forced := verifWeight()
	s := NewWeighted(size0)
	s.ForceAcquire(forced)
	W := verifParam("W", 2)
	var ws []*verifWaiter
	for i := 0; i < W; i++ {
		w := &verifWaiter{n: verifWeight(), ctx: &verifCtx{done: make(chan struct{})}}
		ws = append(ws, w)
		go func() {
			w.err = s.Acquire(w.ctx, w.n)
			w.returned = true
		}()
	}
	verifSettle()
	j := verifChoice(W)
	ws[j].canceled = true
	ws[j].ctx.cancel()
	base := forced
	if verifBool() {
		n := verifWeight()
		verifAssume(n <= base)
		s.Release(n)
		base -= n
	} else {
		s.SetSize(verifWeight())
	}
	verifSettle()
	verifCover("raced")
	verifC42Quiescent(s, "racy")
	verifC42Account(s, ws, base, "racy")
}

// VerifC42Hooked: the race between a cancellation and a Release/SetSize made DETERMINISTIC (so that it also replays natively):
// the harness context runs the competing operation from inside ctx.Err() (called by Acquire after it woke on Done and before
// it re-takes the mutex) or from inside ctx.Done() (evaluated right after the waiter queued itself and dropped the mutex).
func VerifC42Hooked() {
	size0 := verifWeight()
	forced := verifWeight()
	s := NewWeighted(size0)
	s.ForceAcquire(forced)
	base := forced
	op := func() {
		if verifBool() {
			n := verifWeight()
			verifAssume(n <= base)
			s.Release(n)
			base -= n
		} else {
			s.SetSize(verifWeight())
		}
	}
	W := verifParam("W", 2)
	var ws []*verifWaiter
	hooked := verifChoice(W)
	atErr := verifBool()
	for i := 0; i < W; i++ {
		w := &verifWaiter{n: verifWeight(), ctx: &verifCtx{done: make(chan struct{})}}
		if i == hooked {
			if atErr {
				w.ctx.onErr = op
			} else {
				w.ctx.onDone = op
			}
		}
		ws = append(ws, w)
		go func() {
			w.err = s.Acquire(w.ctx, w.n)
			w.returned = true
		}()
		verifSettle() // queue order = creation order
	}
	ws[hooked].canceled = true
	ws[hooked].ctx.cancel()
	verifSettle()
	verifCover("hooked")
	verifC42Quiescent(s, "hooked")
	verifC42Account(s, ws, base, "hooked")
}
