//go:build verif

package internal

// C05 typed case: dictionaries whose VALUES own memory (vectors, nested dictionaries) with two or three entries: JSON written,
// read back into a fresh object, and all three encodings compared. Keys concrete (distinct), elements concrete per path (JSON
// numbers), which entry holds the longer vector symbolic.

func init() { verifRegister("VerifC05x_f07VecDict", VerifC05x_f07VecDict) }

func VerifC05x_f07VecDict() {
	var v F07VecDict
	a, b := []int32{1, 2, 3}, []int32{4, 5}
	if verifBool() {
		a, b = b, a
	}
	switch verifChoice(3) {
	case 0:
		v.D = map[string][]int32{"a": a, "b": b, "c": {6}}
	case 1:
		v.E = map[int32][]int32{1: a, 2: b}
	case 2:
		v.N = map[string]map[string]int32{"x": {"p": 1}, "y": {"q": 2, "p": 3}}
	}
	verifCover("entries-owning-memory")
	j, err := verifWriteJSON(&v)
	verifAssert(err == nil, "json-written")
	if err != nil {
		return
	}
	verifAssert(verifValidJSON(j), "json-is-valid")
	var u F07VecDict
	verifAssert(verifReadJSON(&u, j) == nil, "json-reads-back")
	j2, _ := verifWriteJSON(&u)
	verifAssert(verifBytesEq(j2, j), "json-rewrite-identical")
	w1, _ := v.WriteTL1General(nil)
	w2, _ := u.WriteTL1General(nil)
	verifAssert(verifBytesEq(w1, w2), "tl1-of-reread-value-identical")
	verifAssert(verifBytesEq(v.WriteTL2(nil, nil), u.WriteTL2(nil, nil)), "tl2-of-reread-value-identical")
}
