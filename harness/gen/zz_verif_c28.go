//go:build verif

package internal

// C28: wire compatibility of a schema pair the REAL linter accepted (old = schemas/p/p2_old.tl generated into the parent
// directory, new = schemas/p/p2_new.tl generated into this package). Every old encoding whose field masks set only bits the
// old schema gives meaning to is decoded by the new code with the same consumed length and re-encoded unchanged.

import (
	oldgen "vmod/p2/gen/internal"
)

func init() {
	verifRegister("VerifC28OldBytes", VerifC28OldBytes)
	verifRegister("VerifC28OldValues", VerifC28OldValues)
}

type verifCompat struct {
	name    string
	oldObj  func() verifTL1
	newObj  func() verifTL1
	oldMask func(o interface{}) bool // the decoded old object's masks use old-meaningful bits only
}

var verifCompats = []verifCompat{
	{"s.rec", func() verifTL1 { return &oldgen.SRec{} }, func() verifTL1 { return &SRec{} }, func(o interface{}) bool { return o.(*oldgen.SRec).M&^3 == 0 }},
	{"s.user", func() verifTL1 { return &oldgen.SUser{} }, func() verifTL1 { return &SUser{} }, nil},
	{"s.outer", func() verifTL1 { return &oldgen.SOuter{} }, func() verifTL1 { return &SOuter{} }, func(o interface{}) bool { return o.(*oldgen.SOuter).M&^9 == 0 }},
	{"s.plain", func() verifTL1 { return &oldgen.SPlain{} }, func() verifTL1 { return &SPlain{} }, nil},
	{"s.untagged", func() verifTL1 { return &oldgen.SUntagged{} }, func() verifTL1 { return &SUntagged{} }, func(o interface{}) bool { return o.(*oldgen.SUntagged).M&^1 == 0 }},
	{"s.get", func() verifTL1 { return &oldgen.SGet{} }, func() verifTL1 { return &SGet{} }, func(o interface{}) bool { return o.(*oldgen.SGet).M&^1 == 0 }},
}

func VerifC28OldBytes() {
	c := verifCompats[verifChoice(len(verifCompats))]
	boxed := verifBool()
	b := verifBytes(verifParam("N", 24))
	o := c.oldObj()
	rest, err := verifReadTL1(o, boxed, b)
	if err != nil {
		return
	}
	if c.oldMask != nil {
		verifAssume(c.oldMask(o))
	}
	verifCover("old-encoding")
	n := len(b) - len(rest)
	nw := c.newObj()
	rest2, err := verifReadTL1(nw, boxed, b)
	form := "bare:"
	if boxed {
		form = "boxed:"
	}
	verifAssert(err == nil, "new-schema-decodes-old-encoding:"+form+c.name)
	if err != nil {
		return
	}
	verifAssert(len(rest2) == len(rest), "same-consumed-length:"+c.name)
	w, err := verifWriteTL1(nw, boxed)
	verifAssert(err == nil && len(w) == n && verifBytesEq(w, b[:n]), "new-schema-re-encodes-unchanged:"+c.name)
	ow, err := verifWriteTL1(o, boxed)
	verifAssert(err == nil && verifBytesEq(ow, w), "old-and-new-writers-agree:"+c.name)
}

// from-value direction for the type with appended masked fields: the old value embedded into the new type encodes identically
func VerifC28OldValues() {
	var o oldgen.SRec
	o.M = verifU32() & 3
	o.F = verifI32()
	o.G = verifStringN(verifLen(2))
	verifCover("old-value")
	n := SRec{M: o.M, F: o.F, G: o.G}
	ow := o.WriteTL1(nil)
	nw := n.WriteTL1(nil)
	verifAssert(verifBytesEq(ow, nw), "embedded-old-value-encodes-identically")
}
