//go:build verif

package internal

// Hand-written harness library for regenerated tl2gen code; the per-type glue (descriptors, any<T>) is emitted by hgen.

import (
	"github.com/VKCOM/tl/pkg/basictl"
)

type verifDesc struct {
	name       string
	hasTL1     bool
	hasTL2     bool
	hasJSON    bool
	hasRandom  bool
	hasRepair  bool
	isBytes    bool
	isFunc     bool
	hasMap     bool
	hasFloat   bool
	newObj     func() interface{}
	anyObj     func(d int) interface{}
	anyObjJ    func(d int) interface{}
	repair     func(x interface{})
	fillRandom func(x interface{}, rg *basictl.RandGenerator)
	twin       func() interface{}
	// functions: decode the result into the typed result, encode it in the target format
	typedTL1toTL1  func(q interface{}, b []byte) ([]byte, []byte, error)
	typedTL1toTL2  func(q interface{}, b []byte) ([]byte, []byte, error)
	typedTL2toTL1  func(q interface{}, b []byte) ([]byte, []byte, error)
	typedTL1toJSON func(q interface{}, b []byte) ([]byte, []byte, error)
}

type verifTL1 interface {
	ReadTL1(w []byte) ([]byte, error)
	ReadTL1Boxed(w []byte) ([]byte, error)
	WriteTL1General(w []byte) ([]byte, error)
	WriteTL1BoxedGeneral(w []byte) ([]byte, error)
	TLTag() uint32
}

type verifTL2 interface {
	ReadTL2(r []byte, tctx *basictl.TL2ReadContext) ([]byte, error)
	WriteTL2(w []byte, tctx *basictl.TL2WriteContext) []byte
}

type verifJSON interface {
	ReadJSONGeneral(jctx *basictl.JSONReadContext, in *basictl.JsonLexer) error
	WriteJSONGeneral(jctx *basictl.JSONWriteContext, w []byte) ([]byte, error)
}

func verifReadTL1(o verifTL1, boxed bool, b []byte) ([]byte, error) {
	if boxed {
		return o.ReadTL1Boxed(b)
	}
	return o.ReadTL1(b)
}

func verifWriteTL1(o verifTL1, boxed bool) ([]byte, error) {
	if boxed {
		return o.WriteTL1BoxedGeneral(nil)
	}
	return o.WriteTL1General(nil)
}

// size of the zero value's encoding (concrete), used to place the input-length bound
func verifMinTL1(d *verifDesc, boxed bool) int {
	w, err := verifWriteTL1(d.newObj().(verifTL1), boxed)
	if err != nil {
		return 8
	}
	return len(w)
}

func verifMinTL2(d *verifDesc) int {
	return len(d.newObj().(verifTL2).WriteTL2(nil, nil))
}

func verifBoundTL1(d *verifDesc, boxed bool) int {
	n := verifMinTL1(d, boxed) + verifParam("slack", 8)
	if m := verifParam("maxN", 48); n > m {
		n = m
	}
	return n
}

func verifBoundTL2(d *verifDesc) int {
	n := verifMinTL2(d) + verifParam("slack", 8)
	if m := verifParam("maxN", 48); n > m {
		n = m
	}
	return n
}

// ---- C01: TL1 round trip from an arbitrary value ----
func verifH_C01(d *verifDesc) {
	boxed := verifBool()
	v := d.anyObj(verifParam("D", 2)).(verifTL1)
	w, err := verifWriteTL1(v, boxed)
	if err != nil {
		verifCover("write-error")
		return
	}
	verifCover("written")
	v2 := d.newObj().(verifTL1)
	rest, err := verifReadTL1(v2, boxed, w)
	verifAssert(err == nil, "read-back-ok")
	if err != nil {
		return
	}
	verifAssert(len(rest) == 0, "read-back-consumes-all")
	w2, err := verifWriteTL1(v2, boxed)
	verifAssert(err == nil, "rewrite-ok")
	if d.hasMap {
		// map-backed dictionaries: the writer sorts; compare the re-read value's encoding with itself once more
		v3 := d.newObj().(verifTL1)
		_, err = verifReadTL1(v3, boxed, w2)
		verifAssert(err == nil, "dict-reread-ok")
		w3, _ := verifWriteTL1(v3, boxed)
		verifAssert(verifBytesEq(w3, w2), "dict-rewrite-idempotent")
		return
	}
	verifAssert(verifBytesEq(w2, w), "rewrite-identical")
}

// ---- C02: accepted TL1 input is canonical ----
func verifH_C02(d *verifDesc) {
	boxed := verifBool()
	b := verifBytes(verifBoundTL1(d, boxed))
	v := d.newObj().(verifTL1)
	rest, err := verifReadTL1(v, boxed, b)
	if err != nil {
		verifCover("reject")
		return
	}
	verifCover("accept")
	n := len(b) - len(rest)
	w, err := verifWriteTL1(v, boxed)
	verifAssert(err == nil, "rewrite-ok")
	if err != nil {
		return
	}
	if d.hasMap {
		verifAssert(len(w) <= n, "dict-rewrite-not-longer")
		v2 := d.newObj().(verifTL1)
		r2, err := verifReadTL1(v2, boxed, w)
		verifAssert(err == nil && len(r2) == 0, "dict-reread-ok")
		w2, _ := verifWriteTL1(v2, boxed)
		verifAssert(verifBytesEq(w2, w), "dict-rewrite-idempotent")
		return
	}
	verifAssert(len(w) == n, "rewrite-same-length")
	verifAssert(verifBytesEq(w, b[:n]), "rewrite-equals-accepted-prefix")
}

// ---- C03: TL2 round trip, values obtained from arbitrary TL2 bytes ----
func verifH_C03(d *verifDesc) {
	b := verifBytes(verifBoundTL2(d))
	v := d.newObj().(verifTL2)
	_, err := v.ReadTL2(b, nil)
	if err != nil {
		verifCover("reject")
		return
	}
	verifCover("accept")
	verifTL2RoundTrip(d, v)
}

func verifTL2RoundTrip(d *verifDesc, v verifTL2) {
	w1 := v.WriteTL2(nil, nil) // must not panic
	v2 := d.newObj().(verifTL2)
	rest, err := v2.ReadTL2(w1, nil)
	verifAssert(err == nil, "tl2-read-back-ok")
	if err != nil {
		return
	}
	verifAssert(len(rest) == 0, "tl2-read-back-consumes-all")
	w2 := v2.WriteTL2(nil, nil)
	verifAssert(verifBytesEq(w2, w1), "tl2-rewrite-identical")
}

// C03v: values built through the API (arbitrary public fields, RepairMasks)
func verifH_C03v(d *verifDesc) {
	x := d.anyObj(verifParam("D", 2))
	d.repair(x)
	verifCover("value")
	verifTL2RoundTrip(d, x.(verifTL2))
}

// ---- C04: TL1 -> TL2 -> TL1 preserves the value ----
func verifH_C04(d *verifDesc) {
	boxed := verifBool()
	b := verifBytes(verifBoundTL1(d, boxed))
	v := d.newObj().(verifTL1)
	rest, err := verifReadTL1(v, boxed, b)
	if err != nil {
		verifCover("reject")
		return
	}
	verifCover("accept")
	n := len(b) - len(rest)
	t2 := v.(verifTL2).WriteTL2(nil, nil)
	v2 := d.newObj().(verifTL2)
	r2, err := v2.ReadTL2(t2, nil)
	verifAssert(err == nil, "tl2-read-ok")
	if err != nil {
		return
	}
	verifAssert(len(r2) == 0, "tl2-consumes-all")
	w, err := verifWriteTL1(v2.(verifTL1), boxed)
	verifAssert(err == nil, "tl1-rewrite-ok")
	if err != nil {
		return
	}
	// the value decoded from the TL1 bytes and the value decoded from the TL2 bytes have identical JSON (types with float leaves:
	// strconv's float formatting of a symbolic float is outside the engine's reach, see C34 for the float writers)
	if d.hasJSON && !d.hasFloat && verifParam("json4", 1) == 1 {
		j1, e1 := verifWriteJSON(v.(verifJSON))
		j2, e2 := verifWriteJSON(v2.(verifJSON))
		verifAssert((e1 == nil) == (e2 == nil), "json-writability-same-from-tl1-and-tl2")
		if e1 == nil && e2 == nil {
			verifAssert(verifBytesEq(j1, j2), "json-identical-from-tl1-and-tl2")
		}
	}
	if d.hasMap {
		w0, _ := verifWriteTL1(v, boxed)
		verifAssert(verifBytesEq(w, w0), "dict-tl1-same-as-direct-rewrite")
		return
	}
	verifAssert(len(w) == n && verifBytesEq(w, b[:n]), "tl1-after-tl2-equals-original")
}

// ---- C08: readers total and bounded ----
func verifH_C08(d *verifDesc) {
	boxed := verifBool()
	b := verifBytes(verifBoundTL1(d, boxed) + verifParam("slack8", 8))
	v := d.newObj().(verifTL1)
	verifAllocLimit(len(b))
	_, err := verifReadTL1(v, boxed, b)
	verifAllocCheck(v)
	if err != nil {
		verifCover("reject")
		return
	}
	verifCover("accept")
}

func verifH_C08t2(d *verifDesc) {
	b := verifBytes(verifBoundTL2(d) + verifParam("slack8", 8))
	v := d.newObj().(verifTL2)
	verifAllocLimit(len(b))
	_, err := v.ReadTL2(b, nil)
	verifAllocCheck(v)
	if err != nil {
		verifCover("reject")
		return
	}
	verifCover("accept")
}

// ---- C09: decoding into a reused object equals decoding into a fresh one ----
func verifH_C09(d *verifDesc) {
	boxed := verifBool()
	N := verifBoundTL1(d, boxed)
	b1 := verifBytes(N - verifParam("slack", 8) + verifParam("slack1", 4))
	dirty := d.newObj().(verifTL1)
	_, _ = verifReadTL1(dirty, boxed, b1) // success or failure: object is dirty either way
	b2 := verifBytes(N)
	r1, e1 := verifReadTL1(dirty, boxed, b2)
	fresh := d.newObj().(verifTL1)
	r2, e2 := verifReadTL1(fresh, boxed, b2)
	verifAssert((e1 == nil) == (e2 == nil), "same-acceptance")
	verifAssert(len(r1) == len(r2), "same-remainder")
	if e1 != nil || e2 != nil {
		verifCover("reject")
		return
	}
	verifCover("accept")
	w1, err1 := verifWriteTL1(dirty, boxed)
	w2, err2 := verifWriteTL1(fresh, boxed)
	verifAssert(err1 == nil && err2 == nil, "both-write")
	verifAssert(verifBytesEq(w1, w2), "same-tl1")
	if d.hasTL2 {
		t1 := dirty.(verifTL2).WriteTL2(nil, nil)
		t2 := fresh.(verifTL2).WriteTL2(nil, nil)
		verifAssert(verifBytesEq(t1, t2), "same-tl2")
	}
}

func verifH_C09t2(d *verifDesc) {
	N := verifBoundTL2(d)
	b1 := verifBytes(N - verifParam("slack", 8) + verifParam("slack1", 4))
	dirty := d.newObj().(verifTL2)
	_, _ = dirty.ReadTL2(b1, nil)
	b2 := verifBytes(N)
	r1, e1 := dirty.ReadTL2(b2, nil)
	fresh := d.newObj().(verifTL2)
	r2, e2 := fresh.ReadTL2(b2, nil)
	verifAssert((e1 == nil) == (e2 == nil), "same-acceptance")
	verifAssert(len(r1) == len(r2), "same-remainder")
	if e1 != nil || e2 != nil {
		verifCover("reject")
		return
	}
	verifCover("accept")
	t1 := dirty.WriteTL2(nil, nil)
	t2 := fresh.WriteTL2(nil, nil)
	verifAssert(verifBytesEq(t1, t2), "same-tl2")
	if d.hasTL1 {
		w1, err1 := dirty.(verifTL1).WriteTL1General(nil)
		w2, err2 := fresh.(verifTL1).WriteTL1General(nil)
		verifAssert((err1 == nil) == (err2 == nil), "same-tl1-writability")
		if err1 == nil && err2 == nil {
			verifAssert(verifBytesEq(w1, w2), "same-tl1")
		}
	}
}

// C09f: dirty object = one fully populated value (no extra paths), second decode from arbitrary bytes
func verifH_C09f(d *verifDesc) {
	boxed := verifBool()
	dirty := verifFullObj(d).(verifTL1)
	b2 := verifBytes(verifBoundTL1(d, boxed))
	r1, e1 := verifReadTL1(dirty, boxed, b2)
	fresh := d.newObj().(verifTL1)
	r2, e2 := verifReadTL1(fresh, boxed, b2)
	verifAssert((e1 == nil) == (e2 == nil), "same-acceptance")
	verifAssert(len(r1) == len(r2), "same-remainder")
	if e1 != nil || e2 != nil {
		verifCover("reject")
		return
	}
	verifCover("accept")
	w1, err1 := verifWriteTL1(dirty, boxed)
	w2, err2 := verifWriteTL1(fresh, boxed)
	verifAssert(err1 == nil && err2 == nil, "both-write")
	verifAssert(verifBytesEq(w1, w2), "same-tl1")
	if d.hasTL2 {
		verifAssert(verifBytesEq(dirty.(verifTL2).WriteTL2(nil, nil), fresh.(verifTL2).WriteTL2(nil, nil)), "same-tl2")
	}
	if d.hasJSON && verifParam("json", 0) != 0 {
		j1, _ := verifWriteJSON(dirty.(verifJSON))
		j2, _ := verifWriteJSON(fresh.(verifJSON))
		verifAssert(verifBytesEq(j1, j2), "same-json")
	}
}

func verifH_C09ft2(d *verifDesc) {
	dirty := verifFullObj(d).(verifTL2)
	b2 := verifBytes(verifBoundTL2(d))
	r1, e1 := dirty.ReadTL2(b2, nil)
	fresh := d.newObj().(verifTL2)
	r2, e2 := fresh.ReadTL2(b2, nil)
	verifAssert((e1 == nil) == (e2 == nil), "same-acceptance")
	verifAssert(len(r1) == len(r2), "same-remainder")
	if e1 != nil || e2 != nil {
		verifCover("reject")
		return
	}
	verifCover("accept")
	verifAssert(verifBytesEq(dirty.WriteTL2(nil, nil), fresh.WriteTL2(nil, nil)), "same-tl2")
	if d.hasTL1 {
		w1, err1 := dirty.(verifTL1).WriteTL1General(nil)
		w2, err2 := fresh.(verifTL1).WriteTL1General(nil)
		verifAssert((err1 == nil) == (err2 == nil), "same-tl1-writability")
		if err1 == nil && err2 == nil {
			verifAssert(verifBytesEq(w1, w2), "same-tl1")
		}
	}
}

type verifResetter interface{ Reset() }

func verifH_C09reset(d *verifDesc) {
	x := d.anyObj(verifParam("D", 2))
	x.(verifResetter).Reset()
	fresh := d.newObj()
	verifCover("reset")
	if d.hasTL1 {
		w1, err1 := x.(verifTL1).WriteTL1General(nil)
		w2, err2 := fresh.(verifTL1).WriteTL1General(nil)
		verifAssert((err1 == nil) == (err2 == nil), "reset-same-tl1-writability")
		if err1 == nil && err2 == nil {
			verifAssert(verifBytesEq(w1, w2), "reset-same-tl1")
		}
	}
	if d.hasTL2 {
		verifAssert(verifBytesEq(x.(verifTL2).WriteTL2(nil, nil), fresh.(verifTL2).WriteTL2(nil, nil)), "reset-same-tl2")
	}
}

// ---- C10: bytes variants behave like string variants ----
func verifH_C10(d *verifDesc) {
	boxed := verifBool()
	b := verifBytes(verifBoundTL1(d, boxed))
	s := d.newObj().(verifTL1)
	t := d.twin().(verifTL1)
	r1, e1 := verifReadTL1(s, boxed, b)
	r2, e2 := verifReadTL1(t, boxed, b)
	verifAssert((e1 == nil) == (e2 == nil), "same-acceptance")
	verifAssert(len(r1) == len(r2), "same-remainder")
	if e1 != nil || e2 != nil {
		verifCover("reject")
		return
	}
	verifCover("accept")
	if d.hasMap {
		// the string variant holds a map (sorted, de-duplicated on write), the bytes variant a pair vector: normalise the
		// bytes variant by a round trip through the string variant's canonical bytes
		w1, _ := verifWriteTL1(s, boxed)
		t2 := d.twin().(verifTL1)
		r3, e3 := verifReadTL1(t2, boxed, w1)
		verifAssert(e3 == nil && len(r3) == 0, "dict-canonical-accepted-by-bytes-variant")
		w2, _ := verifWriteTL1(t2, boxed)
		verifAssert(verifBytesEq(w1, w2), "dict-same-tl1-after-normalisation")
		return
	}
	w1, err1 := verifWriteTL1(s, boxed)
	w2, err2 := verifWriteTL1(t, boxed)
	verifAssert(err1 == nil && err2 == nil, "both-write")
	verifAssert(verifBytesEq(w1, w2), "same-tl1")
	if d.hasTL2 {
		verifAssert(verifBytesEq(s.(verifTL2).WriteTL2(nil, nil), t.(verifTL2).WriteTL2(nil, nil)), "same-tl2")
	}
}

func verifH_C10t2(d *verifDesc) {
	b := verifBytes(verifBoundTL2(d))
	s := d.newObj().(verifTL2)
	t := d.twin().(verifTL2)
	r1, e1 := s.ReadTL2(b, nil)
	r2, e2 := t.ReadTL2(b, nil)
	verifAssert((e1 == nil) == (e2 == nil), "same-acceptance")
	verifAssert(len(r1) == len(r2), "same-remainder")
	if e1 != nil || e2 != nil {
		verifCover("reject")
		return
	}
	verifCover("accept")
	if d.hasMap {
		return
	}
	verifAssert(verifBytesEq(s.WriteTL2(nil, nil), t.WriteTL2(nil, nil)), "same-tl2")
}

// ---- C17(a): every boxed encoding starts with the reported tag ----
func verifH_C17(d *verifDesc) {
	v := d.anyObj(verifParam("D", 1)).(verifTL1)
	w, err := v.WriteTL1BoxedGeneral(nil)
	if err != nil {
		verifCover("write-error")
		return
	}
	verifCover("written")
	verifAssert(len(w) >= 4, "at-least-tag")
	tag := uint32(w[0]) | uint32(w[1])<<8 | uint32(w[2])<<16 | uint32(w[3])<<24
	verifAssert(tag == v.TLTag(), "boxed-starts-with-TLTag")
}


// ---- J-mode leaves (numbers concrete on every path; see hgen -jmode) ----

var verifSelJ = -1

func init() {
	verifResetHooks = append(verifResetHooks, func() { verifSelJ, verifNumCount, verifFull = -1, 0, false })
}

func verifSel() int {
	if verifSelJ < 0 {
		verifSelJ = verifChoice(verifParam("pool", 4))
	}
	return verifSelJ
}

var verifNumCount int

// full mode: a single, fully populated value (every optional part present, one element per collection) — used as the
// "dirty" object of the reuse harnesses without multiplying paths
var verifFull bool

func verifBoolJ() bool {
	if verifFull {
		return true
	}
	return verifBool()
}

func verifLenJ(max int) int {
	if verifFull {
		if max > 1 {
			return 1
		}
		return max
	}
	return verifLen(max)
}

func verifChoiceJ(n int, d int, recMask int) int {
	if verifFull {
		for k := n - 1; k > 0; k-- {
			if recMask&(1<<uint(k)) == 0 || d > 0 {
				return k
			}
		}
		return 0
	}
	return verifChoice(n)
}

func verifFullObj(d *verifDesc) interface{} {
	verifFull = true
	x := d.anyObjJ(verifParam("D", 1))
	verifFull = false
	if d.hasRepair {
		d.repair(x)
	}
	return x
}

// verifNumJ: integer leaf from a small pool rotated by the per-path selector (width w bits, negative w = signed)
func verifNumJ(w int) uint64 {
	pool := []uint64{0, 1, 7, 1234567}
	signed := w < 0
	if signed {
		w = -w
	}
	verifNumCount++
	i := (verifSel() + verifNumCount) % 6
	var v uint64
	switch i {
	case 4: // maximum
		if signed {
			v = 1<<uint(w-1) - 1
		} else if w == 64 {
			v = ^uint64(0)
		} else {
			v = 1<<uint(w) - 1
		}
	case 5: // minimum / -1
		if signed {
			v = 1 << uint(w-1) // sign bit only: the minimum after conversion
			if w < 64 {
				v |= ^uint64(0) << uint(w) // sign-extend so that the conversion intN(uint64) is the minimum
			}
		} else {
			v = 10
		}
	default:
		v = pool[i]
		if w < 32 && v > 100 {
			v = 99
		}
	}
	return v
}

func verifFloatJ(w int) float64 {
	verifNumCount++
	switch (verifSel() + verifNumCount) % 6 {
	case 0:
		return 0
	case 1:
		return 1.5
	case 2:
		return -2
	case 3:
		return verifNaN()
	case 4:
		return verifInf(1)
	}
	return verifInf(-1)
}

func verifNaN() float64 {
	var z float64
	return z / z
}

func verifInf(s int) float64 {
	var z float64
	return float64(s) / z
}

// verifMaskJ: a field-mask value: any subset of the bits the schema uses (one path per subset), plus optionally one unused bit
func verifMaskJ(bits []int) uint32 {
	var m uint32
	if verifFull {
		for _, b := range bits {
			m |= 1 << uint(b)
		}
		return m
	}
	for _, b := range bits {
		if verifChoice(2) == 1 { // verifChoice forks (a verifBool would be if-converted into a symbolic mask)
			m |= 1 << uint(b)
		}
	}
	if verifParam("extrabit", 0) != 0 && verifChoice(2) == 1 {
		m |= 1 << 30
	}
	return m
}

// ---- C05: JSON round trip ----

func verifWriteJSON(o verifJSON) ([]byte, error) {
	return o.WriteJSONGeneral(&basictl.JSONWriteContext{}, nil)
}

func verifReadJSON(o verifJSON, j []byte) error {
	return o.ReadJSONGeneral(&basictl.JSONReadContext{}, &basictl.JsonLexer{Data: j})
}

func verifH_C05(d *verifDesc) {
	x := d.anyObjJ(verifParam("D", 1))
	if d.hasRepair {
		d.repair(x)
	}
	v := x.(verifJSON)
	j, err := verifWriteJSON(v)
	if err != nil {
		verifCover("write-error")
		return
	}
	verifCover("written")
	verifAssert(verifValidJSON(j), "json-is-valid")
	v2 := d.newObj().(verifJSON)
	err = verifReadJSON(v2, j)
	verifAssert(err == nil, "json-read-back-ok")
	if err != nil {
		return
	}
	j2, err := verifWriteJSON(v2)
	verifAssert(err == nil && verifBytesEq(j2, j), "json-rewrite-identical")
	if d.hasTL1 {
		w1, e1 := v.(verifTL1).WriteTL1General(nil)
		w2, e2 := v2.(verifTL1).WriteTL1General(nil)
		verifAssert((e1 == nil) == (e2 == nil), "same-tl1-writability")
		if e1 == nil && e2 == nil {
			verifAssert(verifBytesEq(w1, w2), "same-tl1-after-json")
		}
	}
	if d.hasTL2 {
		verifAssert(verifBytesEq(v.(verifTL2).WriteTL2(nil, nil), v2.(verifTL2).WriteTL2(nil, nil)), "same-tl2-after-json")
	}
}


// ---- an independent RFC 8259 recogniser (no jlexer, no encoding/json) ----

type verifJP struct {
	b    []byte
	i    int
	nums [][2]int // spans of number tokens (recorded for the rewrites of C06)
	top  int      // offset just after the opening brace of the top-level object (0 if the value is not an object)
	mem1 [2]int   // span of the first member (key:value) of the top-level object
}

func (p *verifJP) ws() {
	for p.i < len(p.b) && (p.b[p.i] == ' ' || p.b[p.i] == '\t' || p.b[p.i] == '\n' || p.b[p.i] == '\r') {
		p.i++
	}
}

func verifHexDigit(c byte) bool {
	return (c >= '0' && c <= '9') || (c >= 'a' && c <= 'f') || (c >= 'A' && c <= 'F')
}

func (p *verifJP) str() bool {
	if p.i >= len(p.b) || p.b[p.i] != '"' {
		return false
	}
	p.i++
	for p.i < len(p.b) {
		c := p.b[p.i]
		switch {
		case c == '"':
			p.i++
			return true
		case c == '\\':
			if p.i+1 >= len(p.b) {
				return false
			}
			e := p.b[p.i+1]
			switch e {
			case '"', '\\', '/', 'b', 'f', 'n', 'r', 't':
				p.i += 2
			case 'u':
				if p.i+5 >= len(p.b) {
					return false
				}
				for k := 2; k < 6; k++ {
					if !verifHexDigit(p.b[p.i+k]) {
						return false
					}
				}
				p.i += 6
			default:
				return false
			}
		case c < 0x20:
			return false
		default:
			p.i++
		}
	}
	return false
}

func (p *verifJP) digits() bool {
	n := 0
	for p.i < len(p.b) && p.b[p.i] >= '0' && p.b[p.i] <= '9' {
		p.i++
		n++
	}
	return n > 0
}

func (p *verifJP) num() bool {
	if p.i < len(p.b) && p.b[p.i] == '-' {
		p.i++
	}
	if p.i >= len(p.b) {
		return false
	}
	if p.b[p.i] == '0' {
		p.i++
	} else if !p.digits() {
		return false
	}
	if p.i < len(p.b) && p.b[p.i] == '.' {
		p.i++
		if !p.digits() {
			return false
		}
	}
	if p.i < len(p.b) && (p.b[p.i] == 'e' || p.b[p.i] == 'E') {
		p.i++
		if p.i < len(p.b) && (p.b[p.i] == '+' || p.b[p.i] == '-') {
			p.i++
		}
		if !p.digits() {
			return false
		}
	}
	return true
}

func (p *verifJP) lit(s string) bool {
	if p.i+len(s) > len(p.b) {
		return false
	}
	for k := 0; k < len(s); k++ {
		if p.b[p.i+k] != s[k] {
			return false
		}
	}
	p.i += len(s)
	return true
}

func (p *verifJP) value(depth int) bool {
	if depth > 64 {
		return false
	}
	p.ws()
	if p.i >= len(p.b) {
		return false
	}
	switch c := p.b[p.i]; {
	case c == '{':
		p.i++
		p.ws()
		if p.i < len(p.b) && p.b[p.i] == '}' {
			p.i++
			return true
		}
		for {
			p.ws()
			if !p.str() {
				return false
			}
			p.ws()
			if p.i >= len(p.b) || p.b[p.i] != ':' {
				return false
			}
			p.i++
			if !p.value(depth + 1) {
				return false
			}
			p.ws()
			if p.i >= len(p.b) {
				return false
			}
			if p.b[p.i] == ',' {
				p.i++
				continue
			}
			if p.b[p.i] == '}' {
				p.i++
				return true
			}
			return false
		}
	case c == '[':
		p.i++
		p.ws()
		if p.i < len(p.b) && p.b[p.i] == ']' {
			p.i++
			return true
		}
		for {
			if !p.value(depth + 1) {
				return false
			}
			p.ws()
			if p.i >= len(p.b) {
				return false
			}
			if p.b[p.i] == ',' {
				p.i++
				continue
			}
			if p.b[p.i] == ']' {
				p.i++
				return true
			}
			return false
		}
	case c == '"':
		return p.str()
	case c == 't':
		return p.lit("true")
	case c == 'f':
		return p.lit("false")
	case c == 'n':
		return p.lit("null")
	default:
		st := p.i
		ok := p.num()
		if ok {
			p.nums = append(p.nums, [2]int{st, p.i})
		}
		return ok
	}
}

// verifValidJSON: b is exactly one JSON value (RFC 8259 grammar; string bytes >= 0x80 are accepted as-is, the UTF-8
// well-formedness of string contents is asserted separately where the property demands it).
func verifValidJSON(b []byte) bool {
	p := &verifJP{b: b}
	if !p.value(0) {
		return false
	}
	p.ws()
	return p.i == len(b)
}


// ---- C43: accessors ----

// verifCloneVia copies src into dst through the TL2 (or TL1) encoding; private presence state travels with the encoding.
func verifCloneVia(d *verifDesc, src, dst interface{}) {
	if d.hasTL2 {
		w := src.(verifTL2).WriteTL2(nil, nil)
		_, err := dst.(verifTL2).ReadTL2(w, nil)
		verifAssume(err == nil)
		return
	}
	w, err := src.(verifTL1).WriteTL1General(nil)
	verifAssume(err == nil)
	_, err = dst.(verifTL1).ReadTL1(w)
	verifAssume(err == nil)
}

// after Set/Clear: the field is present/absent in every encoding (observed by decoding into a fresh object)
func verifAccessorCheck(d *verifDesc, o interface{}, present bool, isSet func(interface{}) bool) {
	if d.hasTL1 {
		w, err := o.(verifTL1).WriteTL1General(nil)
		if err == nil {
			o2 := d.newObj()
			_, err = o2.(verifTL1).ReadTL1(w)
			verifAssert(err == nil, "tl1-decodes")
			if err == nil {
				verifAssert(isSet(o2) == present, "tl1-presence-follows-accessor")
			}
		}
	}
	if d.hasTL2 {
		w := o.(verifTL2).WriteTL2(nil, nil)
		o2 := d.newObj()
		_, err := o2.(verifTL2).ReadTL2(w, nil)
		verifAssert(err == nil, "tl2-decodes")
		if err == nil {
			verifAssert(isSet(o2) == present, "tl2-presence-follows-accessor")
		}
	}
}

// frame condition: two objects that differ at most in field X are compared with X cleared on both
func verifAccessorFrame(d *verifDesc, a, b interface{}) {
	if d.hasTL2 {
		verifAssert(verifBytesEq(a.(verifTL2).WriteTL2(nil, nil), b.(verifTL2).WriteTL2(nil, nil)), "frame-tl2-unchanged-except-field")
	}
	if d.hasTL1 {
		w1, e1 := a.(verifTL1).WriteTL1General(nil)
		w2, e2 := b.(verifTL1).WriteTL1General(nil)
		verifAssert((e1 == nil) == (e2 == nil), "frame-tl1-writability-unchanged")
		if e1 == nil && e2 == nil {
			verifAssert(verifBytesEq(w1, w2), "frame-tl1-unchanged-except-field")
		}
	}
}

// ---- C18: random filling with an arbitrary Rand ----

type verifRandSrc struct {
	rec    []uint64
	pos    int
	replay bool
	base   int // call depth at the start of the harness (0 = no recursion bound checked)
}

func (r *verifRandSrc) next() uint64 {
	if r.base != 0 {
		// termination of recursive types: the generator's depth limit (maxDepth <= 5) bounds the nesting of generated values, so
		// the call depth of FillRandom is bounded whatever the source returns; RDEPTH is far above what the limit allows
		verifAssert(verifCallDepth()-r.base <= verifParam("RDEPTH", 100), "random-filling-recursion-is-bounded")
	}
	if r.replay {
		v := r.rec[r.pos] // running past the recorded draws = nondeterministic consumption -> index panic
		r.pos++
		return v
	}
	v := verifU64()
	if low := verifParam("rlow", 99); low < 32 {
		verifAssume(v%32 <= uint64(low)) // keeps RandomString short (its length is draw % 32 and cannot be clamped by SizeHandler)
	}
	r.rec = append(r.rec, v)
	return v
}
func (r *verifRandSrc) Uint32() uint32 { return uint32(r.next()) }
func (r *verifRandSrc) Int31() int32   { return int32(r.next() & 0x7fffffff) }
func (r *verifRandSrc) Int63() int64   { return int64(r.next() & 0x7fffffffffffffff) }
func (r *verifRandSrc) NormFloat64() float64 {
	b := r.next()
	verifAssume((b>>52)&0x7ff != 0x7ff) // finite, as math/rand's NormFloat64 guarantees
	return verifF64frombits(b)
}

func verifH_C18(d *verifDesc) {
	L := uint32(verifParam("L", 2))
	ctx := basictl.RandgeneratorContext{SizeHandler: func(x uint32) uint32 { return x % (L + 1) }}
	src := &verifRandSrc{base: verifCallDepth()}
	v := d.newObj()
	d.fillRandom(v, basictl.NewRandGeneratorWithContext(src, ctx))
	src.base = 0
	verifCover("filled")
	var w1 []byte
	var e1 error
	// TL2-native types (declared in .tl2 files) carry TL1 methods that only return "not implemented for tl2 type": recognised by
	// their zero value being unwritable (every TL1 type writes its zero value)
	hasTL1 := d.hasTL1
	if hasTL1 && d.hasTL2 {
		if _, e0 := d.newObj().(verifTL1).WriteTL1General(nil); e0 != nil {
			hasTL1 = false
		}
	}
	if hasTL1 {
		w1, e1 = v.(verifTL1).WriteTL1General(nil)
		verifAssert(e1 == nil, "tl1-writer-accepts-random-value")
		if e1 == nil {
			v2 := d.newObj().(verifTL1)
			rest, err := v2.ReadTL1(w1)
			verifAssert(err == nil && len(rest) == 0, "tl1-random-value-reads-back")
		}
	}
	var t1 []byte
	if d.hasTL2 {
		t1 = v.(verifTL2).WriteTL2(nil, nil) // must not panic
		v2 := d.newObj().(verifTL2)
		rest, err := v2.ReadTL2(t1, nil)
		verifAssert(err == nil && len(rest) == 0, "tl2-random-value-reads-back")
		if err == nil {
			verifAssert(verifBytesEq(v2.WriteTL2(nil, nil), t1), "tl2-random-value-rewrites-identically")
		}
	}
	// same output sequence of the source => same value, consuming exactly the same number of draws
	src2 := &verifRandSrc{rec: src.rec, replay: true}
	u := d.newObj()
	d.fillRandom(u, basictl.NewRandGeneratorWithContext(src2, ctx))
	verifAssert(src2.pos == len(src.rec), "same-number-of-draws")
	if hasTL1 && e1 == nil {
		w2, e2 := u.(verifTL1).WriteTL1General(nil)
		verifAssert(e2 == nil && verifBytesEq(w1, w2), "same-seed-same-tl1")
	}
	if d.hasTL2 {
		verifAssert(verifBytesEq(u.(verifTL2).WriteTL2(nil, nil), t1), "same-seed-same-tl2")
	}
	// the value for a seed does not depend on what the object held before: filling an ARBITRARY (dirty) object from the same
	// output sequence gives the same encodings as filling a fresh one
	if verifParam("refill", 1) != 0 {
		x := d.anyObj(1)
		src3 := &verifRandSrc{rec: src.rec, replay: true}
		d.fillRandom(x, basictl.NewRandGeneratorWithContext(src3, ctx))
		verifCover("refilled")
		if hasTL1 && e1 == nil {
			w3, e3 := x.(verifTL1).WriteTL1General(nil)
			verifAssert(e3 == nil && verifBytesEq(w1, w3), "refill-of-a-dirty-object-same-tl1")
		}
		if d.hasTL2 {
			verifAssert(verifBytesEq(x.(verifTL2).WriteTL2(nil, nil), t1), "refill-of-a-dirty-object-same-tl2")
		}
	}
}

// ---- C09 with JSON as the second decode ----

func verifH_C09j(d *verifDesc) {
	dirty := verifFullObj(d)
	src := d.anyObjJ(verifParam("D", 1))
	if d.hasRepair {
		d.repair(src)
	}
	j, err := verifWriteJSON(src.(verifJSON))
	if err != nil {
		return
	}
	e1 := verifReadJSON(dirty.(verifJSON), j)
	fresh := d.newObj()
	e2 := verifReadJSON(fresh.(verifJSON), j)
	verifAssert((e1 == nil) == (e2 == nil), "json-same-acceptance")
	if e1 != nil || e2 != nil {
		verifCover("reject")
		return
	}
	verifCover("accept")
	j1, _ := verifWriteJSON(dirty.(verifJSON))
	j2, _ := verifWriteJSON(fresh.(verifJSON))
	verifAssert(verifBytesEq(j1, j2), "json-reuse-same-json")
	if d.hasTL1 {
		w1, x1 := dirty.(verifTL1).WriteTL1General(nil)
		w2, x2 := fresh.(verifTL1).WriteTL1General(nil)
		verifAssert((x1 == nil) == (x2 == nil), "json-reuse-same-tl1-writability")
		if x1 == nil && x2 == nil {
			verifAssert(verifBytesEq(w1, w2), "json-reuse-same-tl1")
		}
	}
	if d.hasTL2 {
		verifAssert(verifBytesEq(dirty.(verifTL2).WriteTL2(nil, nil), fresh.(verifTL2).WriteTL2(nil, nil)), "json-reuse-same-tl2")
	}
}


// ---- C07: function result transcoders ----

type verifTransTL2 interface {
	ReadResultTL1WriteResultTL2(tctx *basictl.TL2WriteContext, r []byte, w []byte) ([]byte, []byte, error)
	ReadResultTL2WriteResultTL1(tctx *basictl.TL2ReadContext, r []byte, w []byte) ([]byte, []byte, error)
}

type verifTransJSON interface {
	ReadResultTL1WriteResultJSON(jctx *basictl.JSONWriteContext, r []byte, w []byte) ([]byte, []byte, error)
	ReadResultJSONWriteResultTL1(jctx *basictl.JSONReadContext, r []byte, w []byte) ([]byte, []byte, error)
}

type verifTransTL2JSON interface {
	ReadResultTL2WriteResultJSON(tctx *basictl.TL2ReadContext, jctx *basictl.JSONWriteContext, r []byte, w []byte) ([]byte, []byte, error)
	ReadResultJSONWriteResultTL2(jctx *basictl.JSONReadContext, tctx *basictl.TL2WriteContext, r []byte, w []byte) ([]byte, []byte, error)
}

func verifH_C07(d *verifDesc) {
	if d.typedTL1toTL1 == nil {
		return
	}
	q := d.anyObj(verifParam("D", 1)) // the request: its # fields shape the result type
	b := verifBytes(verifParam("resN", 12))
	rest, w1, err := d.typedTL1toTL1(q, b)
	if err != nil {
		verifCover("result-rejected")
		if t, ok := q.(verifTransTL2); ok && d.typedTL1toTL2 != nil {
			_, _, e2 := t.ReadResultTL1WriteResultTL2(nil, b, nil)
			verifAssert(e2 != nil, "transcoder-rejects-what-the-typed-decoder-rejects")
		}
		return
	}
	verifCover("result-accepted")
	n := len(b) - len(rest)
	if !d.hasMap {
		verifAssert(verifBytesEq(w1, b[:n]), "typed-result-rewrites-identically")
	}
	if t, ok := q.(verifTransTL2); ok && d.typedTL1toTL2 != nil {
		r2, t2, e2 := t.ReadResultTL1WriteResultTL2(nil, b, nil)
		verifAssert(e2 == nil && len(r2) == len(rest), "tl1-to-tl2-transcoder-accepts")
		_, want, _ := d.typedTL1toTL2(q, b)
		if e2 == nil {
			verifAssert(verifBytesEq(t2, want), "tl1-to-tl2-transcoder-agrees-with-typed-path")
			r3, back, e3 := t.ReadResultTL2WriteResultTL1(nil, t2, nil)
			verifAssert(e3 == nil && len(r3) == 0, "tl2-to-tl1-transcoder-accepts")
			if e3 == nil {
				verifAssert(verifBytesEq(back, w1), "tl1-tl2-tl1-reproduces-the-result")
				_, want1, e4 := d.typedTL2toTL1(q, t2)
				verifAssert(e4 == nil && verifBytesEq(back, want1), "tl2-to-tl1-transcoder-agrees-with-typed-path")
			}
		}
	}
	if t, ok := q.(verifTransTL2JSON); ok && verifParam("json", 1) != 0 {
		// the direct TL2<->JSON transcoders against the two-step routes through TL1, under EVERY JSON context (legacy type names,
		// short names, TL2 naming): the context must reach the result writer on every route
		if t1, ok := q.(verifTransTL2); ok {
			if tj, ok := q.(verifTransJSON); ok {
				if _, t2, e2 := t1.ReadResultTL1WriteResultTL2(nil, b, nil); e2 == nil {
					jctx := basictl.JSONWriteContext{LegacyTypeNames: verifBool(), Short: verifBool(), IsTL2: verifBool()}
					_, jA, eA := t.ReadResultTL2WriteResultJSON(nil, &jctx, t2, nil)
					_, jB, eB := tj.ReadResultTL1WriteResultJSON(&jctx, b, nil)
					verifCover("json-contexts")
					verifAssert((eA == nil) == (eB == nil), "tl2-to-json-and-tl1-to-json-accept-the-same")
					if eA == nil && eB == nil {
						verifAssert(verifBytesEq(jA, jB), "tl2-to-json-agrees-with-tl1-to-json-under-the-same-context")
						if !jctx.LegacyTypeNames && !jctx.Short && !jctx.IsTL2 {
							_, t2back, e3 := t.ReadResultJSONWriteResultTL2(&basictl.JSONReadContext{}, nil, jA, nil)
							verifAssert(e3 == nil, "json-to-tl2-transcoder-accepts")
							if e3 == nil {
								verifAssert(verifBytesEq(t2back, t2), "tl2-json-tl2-reproduces-the-result")
							}
						}
					}
				}
			}
		}
	}
	if t, ok := q.(verifTransJSON); ok && verifParam("json", 1) != 0 {
		rj, j, ej := t.ReadResultTL1WriteResultJSON(&basictl.JSONWriteContext{}, b, nil)
		verifAssert(ej == nil && len(rj) == len(rest), "tl1-to-json-transcoder-accepts")
		if ej == nil {
			_, wantj, _ := d.typedTL1toJSON(q, b)
			verifAssert(verifBytesEq(j, wantj), "tl1-to-json-transcoder-agrees-with-typed-path")
			verifAssert(verifValidJSON(j), "result-json-is-valid")
			_, back, eb := t.ReadResultJSONWriteResultTL1(&basictl.JSONReadContext{}, j, nil)
			verifAssert(eb == nil, "json-to-tl1-transcoder-accepts")
			if eb == nil {
				verifAssert(verifBytesEq(back, w1), "tl1-json-tl1-reproduces-the-result")
			}
		}
	}
}


// ---- C06: alternative forms and rejections (generic part) ----

func verifScanJSON(j []byte) *verifJP {
	p := &verifJP{b: j}
	p.ws()
	if p.i < len(j) && j[p.i] == '{' {
		// record the first member span of the top-level object
		q := &verifJP{b: j, i: p.i + 1}
		q.ws()
		p.top = q.i
		if q.i < len(j) && j[q.i] == '"' {
			st := q.i
			if q.str() {
				q.ws()
				if q.i < len(j) && j[q.i] == ':' {
					q.i++
					if q.value(1) {
						p.mem1 = [2]int{st, q.i}
					}
				}
			}
		}
	}
	p.value(0)
	return p
}

func verifH_C06(d *verifDesc) {
	x := d.anyObjJ(verifParam("D", 1))
	if d.hasRepair {
		d.repair(x)
	}
	v := x.(verifJSON)
	j, err := verifWriteJSON(v)
	if err != nil {
		return
	}
	sc := verifScanJSON(j)
	// the reference value is what the reader decodes from the CANONICAL form j (whether that equals x is C05's subject)
	x0 := d.newObj()
	if verifReadJSON(x0.(verifJSON), j) != nil {
		return
	}
	var want []byte
	if d.hasTL2 {
		want = x0.(verifTL2).WriteTL2(nil, nil)
	} else {
		want, _ = x0.(verifTL1).WriteTL1General(nil)
	}
	same := func(o interface{}) bool {
		if d.hasTL2 {
			return verifBytesEq(o.(verifTL2).WriteTL2(nil, nil), want)
		}
		w, _ := o.(verifTL1).WriteTL1General(nil)
		return verifBytesEq(w, want)
	}
	switch verifChoice(3) {
	case 0: // every number written as a decimal string
		if len(sc.nums) == 0 {
			return
		}
		verifCover("numbers-as-strings")
		var alt []byte
		prev := 0
		for _, sp := range sc.nums {
			alt = append(alt, j[prev:sp[0]]...)
			alt = append(alt, '"')
			alt = append(alt, j[sp[0]:sp[1]]...)
			alt = append(alt, '"')
			prev = sp[1]
		}
		alt = append(alt, j[prev:]...)
		o := d.newObj()
		err := verifReadJSON(o.(verifJSON), alt)
		verifAssert(err == nil, "numbers-as-decimal-strings-accepted")
		if err == nil {
			verifAssert(same(o), "numbers-as-decimal-strings-same-value")
		}
	case 1: // unknown key
		if sc.top == 0 {
			return
		}
		verifCover("unknown-key")
		alt := append([]byte(nil), j[:sc.top]...)
		alt = append(alt, `"zz_unknown_key":1`...)
		if sc.mem1[1] > 0 {
			alt = append(alt, ',')
		}
		alt = append(alt, j[sc.top:]...)
		o := d.newObj()
		verifAssert(verifReadJSON(o.(verifJSON), alt) != nil, "unknown-key-rejected")
	case 2: // duplicate key
		if sc.mem1[1] == 0 {
			return
		}
		verifCover("duplicate-key")
		alt := append([]byte(nil), j[:sc.mem1[1]]...)
		alt = append(alt, ',')
		alt = append(alt, j[sc.mem1[0]:sc.mem1[1]]...)
		alt = append(alt, j[sc.mem1[1]:]...)
		o := d.newObj()
		verifAssert(verifReadJSON(o.(verifJSON), alt) != nil, "duplicate-key-rejected")
	}
}
