//go:build verif

package internal

// Hand-written harness library for regenerated tl2gen code; the per-type glue (descriptors, any<T>) is emitted by hgen.

import (
	"github.com/VKCOM/tl/pkg/basictl"
)

type verifDesc struct {
	name       string
	hasTL1     bool
	hasTL2     bool
	hasJSON    bool
	hasRandom  bool
	hasRepair  bool
	isBytes    bool
	isFunc     bool
	hasMap     bool
	newObj     func() interface{}
	anyObj     func(d int) interface{}
	repair     func(x interface{})
	fillRandom func(x interface{}, rg *basictl.RandGenerator)
	twin       func() interface{}
}

type verifTL1 interface {
	ReadTL1(w []byte) ([]byte, error)
	ReadTL1Boxed(w []byte) ([]byte, error)
	WriteTL1General(w []byte) ([]byte, error)
	WriteTL1BoxedGeneral(w []byte) ([]byte, error)
	TLTag() uint32
}

type verifTL2 interface {
	ReadTL2(r []byte, tctx *basictl.TL2ReadContext) ([]byte, error)
	WriteTL2(w []byte, tctx *basictl.TL2WriteContext) []byte
}

type verifJSON interface {
	ReadJSONGeneral(jctx *basictl.JSONReadContext, in *basictl.JsonLexer) error
	WriteJSONGeneral(jctx *basictl.JSONWriteContext, w []byte) ([]byte, error)
}

func verifReadTL1(o verifTL1, boxed bool, b []byte) ([]byte, error) {
	if boxed {
		return o.ReadTL1Boxed(b)
	}
	return o.ReadTL1(b)
}

func verifWriteTL1(o verifTL1, boxed bool) ([]byte, error) {
	if boxed {
		return o.WriteTL1BoxedGeneral(nil)
	}
	return o.WriteTL1General(nil)
}

// size of the zero value's encoding (concrete), used to place the input-length bound
func verifMinTL1(d *verifDesc, boxed bool) int {
	w, err := verifWriteTL1(d.newObj().(verifTL1), boxed)
	if err != nil {
		return 8
	}
	return len(w)
}

func verifMinTL2(d *verifDesc) int {
	return len(d.newObj().(verifTL2).WriteTL2(nil, nil))
}

func verifBoundTL1(d *verifDesc, boxed bool) int {
	n := verifMinTL1(d, boxed) + verifParam("slack", 8)
	if m := verifParam("maxN", 48); n > m {
		n = m
	}
	return n
}

func verifBoundTL2(d *verifDesc) int {
	n := verifMinTL2(d) + verifParam("slack", 8)
	if m := verifParam("maxN", 48); n > m {
		n = m
	}
	return n
}

// ---- C01: TL1 round trip from an arbitrary value ----
func verifH_C01(d *verifDesc) {
	boxed := verifBool()
	v := d.anyObj(verifParam("D", 2)).(verifTL1)
	w, err := verifWriteTL1(v, boxed)
	if err != nil {
		verifCover("write-error")
		return
	}
	verifCover("written")
	v2 := d.newObj().(verifTL1)
	rest, err := verifReadTL1(v2, boxed, w)
	verifAssert(err == nil, "read-back-ok")
	if err != nil {
		return
	}
	verifAssert(len(rest) == 0, "read-back-consumes-all")
	w2, err := verifWriteTL1(v2, boxed)
	verifAssert(err == nil, "rewrite-ok")
	if d.hasMap {
		// map-backed dictionaries: the writer sorts; compare the re-read value's encoding with itself once more
		v3 := d.newObj().(verifTL1)
		_, err = verifReadTL1(v3, boxed, w2)
		verifAssert(err == nil, "dict-reread-ok")
		w3, _ := verifWriteTL1(v3, boxed)
		verifAssert(verifBytesEq(w3, w2), "dict-rewrite-idempotent")
		return
	}
	verifAssert(verifBytesEq(w2, w), "rewrite-identical")
}

// ---- C02: accepted TL1 input is canonical ----
func verifH_C02(d *verifDesc) {
	boxed := verifBool()
	b := verifBytes(verifBoundTL1(d, boxed))
	v := d.newObj().(verifTL1)
	rest, err := verifReadTL1(v, boxed, b)
	if err != nil {
		verifCover("reject")
		return
	}
	verifCover("accept")
	n := len(b) - len(rest)
	w, err := verifWriteTL1(v, boxed)
	verifAssert(err == nil, "rewrite-ok")
	if err != nil {
		return
	}
	if d.hasMap {
		verifAssert(len(w) <= n, "dict-rewrite-not-longer")
		v2 := d.newObj().(verifTL1)
		r2, err := verifReadTL1(v2, boxed, w)
		verifAssert(err == nil && len(r2) == 0, "dict-reread-ok")
		w2, _ := verifWriteTL1(v2, boxed)
		verifAssert(verifBytesEq(w2, w), "dict-rewrite-idempotent")
		return
	}
	verifAssert(len(w) == n, "rewrite-same-length")
	verifAssert(verifBytesEq(w, b[:n]), "rewrite-equals-accepted-prefix")
}

// ---- C03: TL2 round trip, values obtained from arbitrary TL2 bytes ----
func verifH_C03(d *verifDesc) {
	b := verifBytes(verifBoundTL2(d))
	v := d.newObj().(verifTL2)
	_, err := v.ReadTL2(b, nil)
	if err != nil {
		verifCover("reject")
		return
	}
	verifCover("accept")
	verifTL2RoundTrip(d, v)
}

func verifTL2RoundTrip(d *verifDesc, v verifTL2) {
	w1 := v.WriteTL2(nil, nil) // must not panic
	v2 := d.newObj().(verifTL2)
	rest, err := v2.ReadTL2(w1, nil)
	verifAssert(err == nil, "tl2-read-back-ok")
	if err != nil {
		return
	}
	verifAssert(len(rest) == 0, "tl2-read-back-consumes-all")
	w2 := v2.WriteTL2(nil, nil)
	verifAssert(verifBytesEq(w2, w1), "tl2-rewrite-identical")
}

// C03v: values built through the API (arbitrary public fields, RepairMasks)
func verifH_C03v(d *verifDesc) {
	x := d.anyObj(verifParam("D", 2))
	d.repair(x)
	verifCover("value")
	verifTL2RoundTrip(d, x.(verifTL2))
}

// ---- C04: TL1 -> TL2 -> TL1 preserves the value ----
func verifH_C04(d *verifDesc) {
	boxed := verifBool()
	b := verifBytes(verifBoundTL1(d, boxed))
	v := d.newObj().(verifTL1)
	rest, err := verifReadTL1(v, boxed, b)
	if err != nil {
		verifCover("reject")
		return
	}
	verifCover("accept")
	n := len(b) - len(rest)
	t2 := v.(verifTL2).WriteTL2(nil, nil)
	v2 := d.newObj().(verifTL2)
	r2, err := v2.ReadTL2(t2, nil)
	verifAssert(err == nil, "tl2-read-ok")
	if err != nil {
		return
	}
	verifAssert(len(r2) == 0, "tl2-consumes-all")
	w, err := verifWriteTL1(v2.(verifTL1), boxed)
	verifAssert(err == nil, "tl1-rewrite-ok")
	if err != nil {
		return
	}
	if d.hasMap {
		w0, _ := verifWriteTL1(v, boxed)
		verifAssert(verifBytesEq(w, w0), "dict-tl1-same-as-direct-rewrite")
		return
	}
	verifAssert(len(w) == n && verifBytesEq(w, b[:n]), "tl1-after-tl2-equals-original")
}

// ---- C08: readers total and bounded ----
func verifH_C08(d *verifDesc) {
	boxed := verifBool()
	b := verifBytes(verifBoundTL1(d, boxed) + verifParam("slack8", 8))
	v := d.newObj().(verifTL1)
	verifAllocLimit(len(b))
	_, err := verifReadTL1(v, boxed, b)
	if err != nil {
		verifCover("reject")
		return
	}
	verifCover("accept")
}

func verifH_C08t2(d *verifDesc) {
	b := verifBytes(verifBoundTL2(d) + verifParam("slack8", 8))
	v := d.newObj().(verifTL2)
	verifAllocLimit(len(b))
	_, err := v.ReadTL2(b, nil)
	if err != nil {
		verifCover("reject")
		return
	}
	verifCover("accept")
}

// ---- C09: decoding into a reused object equals decoding into a fresh one ----
func verifH_C09(d *verifDesc) {
	boxed := verifBool()
	N := verifBoundTL1(d, boxed)
	b1 := verifBytes(N - verifParam("slack", 8) + verifParam("slack1", 4))
	dirty := d.newObj().(verifTL1)
	_, _ = verifReadTL1(dirty, boxed, b1) // success or failure: object is dirty either way
	b2 := verifBytes(N)
	r1, e1 := verifReadTL1(dirty, boxed, b2)
	fresh := d.newObj().(verifTL1)
	r2, e2 := verifReadTL1(fresh, boxed, b2)
	verifAssert((e1 == nil) == (e2 == nil), "same-acceptance")
	verifAssert(len(r1) == len(r2), "same-remainder")
	if e1 != nil || e2 != nil {
		verifCover("reject")
		return
	}
	verifCover("accept")
	w1, err1 := verifWriteTL1(dirty, boxed)
	w2, err2 := verifWriteTL1(fresh, boxed)
	verifAssert(err1 == nil && err2 == nil, "both-write")
	verifAssert(verifBytesEq(w1, w2), "same-tl1")
	if d.hasTL2 {
		t1 := dirty.(verifTL2).WriteTL2(nil, nil)
		t2 := fresh.(verifTL2).WriteTL2(nil, nil)
		verifAssert(verifBytesEq(t1, t2), "same-tl2")
	}
}

func verifH_C09t2(d *verifDesc) {
	N := verifBoundTL2(d)
	b1 := verifBytes(N - verifParam("slack", 8) + verifParam("slack1", 4))
	dirty := d.newObj().(verifTL2)
	_, _ = dirty.ReadTL2(b1, nil)
	b2 := verifBytes(N)
	r1, e1 := dirty.ReadTL2(b2, nil)
	fresh := d.newObj().(verifTL2)
	r2, e2 := fresh.ReadTL2(b2, nil)
	verifAssert((e1 == nil) == (e2 == nil), "same-acceptance")
	verifAssert(len(r1) == len(r2), "same-remainder")
	if e1 != nil || e2 != nil {
		verifCover("reject")
		return
	}
	verifCover("accept")
	t1 := dirty.WriteTL2(nil, nil)
	t2 := fresh.WriteTL2(nil, nil)
	verifAssert(verifBytesEq(t1, t2), "same-tl2")
	if d.hasTL1 {
		w1, err1 := dirty.(verifTL1).WriteTL1General(nil)
		w2, err2 := fresh.(verifTL1).WriteTL1General(nil)
		verifAssert((err1 == nil) == (err2 == nil), "same-tl1-writability")
		if err1 == nil && err2 == nil {
			verifAssert(verifBytesEq(w1, w2), "same-tl1")
		}
	}
}

type verifResetter interface{ Reset() }

func verifH_C09reset(d *verifDesc) {
	x := d.anyObj(verifParam("D", 2))
	x.(verifResetter).Reset()
	fresh := d.newObj()
	verifCover("reset")
	if d.hasTL1 {
		w1, err1 := x.(verifTL1).WriteTL1General(nil)
		w2, err2 := fresh.(verifTL1).WriteTL1General(nil)
		verifAssert((err1 == nil) == (err2 == nil), "reset-same-tl1-writability")
		if err1 == nil && err2 == nil {
			verifAssert(verifBytesEq(w1, w2), "reset-same-tl1")
		}
	}
	if d.hasTL2 {
		verifAssert(verifBytesEq(x.(verifTL2).WriteTL2(nil, nil), fresh.(verifTL2).WriteTL2(nil, nil)), "reset-same-tl2")
	}
}

// ---- C10: bytes variants behave like string variants ----
func verifH_C10(d *verifDesc) {
	boxed := verifBool()
	b := verifBytes(verifBoundTL1(d, boxed))
	s := d.newObj().(verifTL1)
	t := d.twin().(verifTL1)
	r1, e1 := verifReadTL1(s, boxed, b)
	r2, e2 := verifReadTL1(t, boxed, b)
	verifAssert((e1 == nil) == (e2 == nil), "same-acceptance")
	verifAssert(len(r1) == len(r2), "same-remainder")
	if e1 != nil || e2 != nil {
		verifCover("reject")
		return
	}
	verifCover("accept")
	if d.hasMap {
		// the string variant holds a map (sorted, de-duplicated on write), the bytes variant a pair vector: normalise the
		// bytes variant by a round trip through the string variant's canonical bytes
		w1, _ := verifWriteTL1(s, boxed)
		t2 := d.twin().(verifTL1)
		r3, e3 := verifReadTL1(t2, boxed, w1)
		verifAssert(e3 == nil && len(r3) == 0, "dict-canonical-accepted-by-bytes-variant")
		w2, _ := verifWriteTL1(t2, boxed)
		verifAssert(verifBytesEq(w1, w2), "dict-same-tl1-after-normalisation")
		return
	}
	w1, err1 := verifWriteTL1(s, boxed)
	w2, err2 := verifWriteTL1(t, boxed)
	verifAssert(err1 == nil && err2 == nil, "both-write")
	verifAssert(verifBytesEq(w1, w2), "same-tl1")
	if d.hasTL2 {
		verifAssert(verifBytesEq(s.(verifTL2).WriteTL2(nil, nil), t.(verifTL2).WriteTL2(nil, nil)), "same-tl2")
	}
}

func verifH_C10t2(d *verifDesc) {
	b := verifBytes(verifBoundTL2(d))
	s := d.newObj().(verifTL2)
	t := d.twin().(verifTL2)
	r1, e1 := s.ReadTL2(b, nil)
	r2, e2 := t.ReadTL2(b, nil)
	verifAssert((e1 == nil) == (e2 == nil), "same-acceptance")
	verifAssert(len(r1) == len(r2), "same-remainder")
	if e1 != nil || e2 != nil {
		verifCover("reject")
		return
	}
	verifCover("accept")
	if d.hasMap {
		return
	}
	verifAssert(verifBytesEq(s.WriteTL2(nil, nil), t.WriteTL2(nil, nil)), "same-tl2")
}

// ---- C17(a): every boxed encoding starts with the reported tag ----
func verifH_C17(d *verifDesc) {
	v := d.anyObj(verifParam("D", 1)).(verifTL1)
	w, err := v.WriteTL1BoxedGeneral(nil)
	if err != nil {
		verifCover("write-error")
		return
	}
	verifCover("written")
	verifAssert(len(w) >= 4, "at-least-tag")
	tag := uint32(w[0]) | uint32(w[1])<<8 | uint32(w[2])<<16 | uint32(w[3])<<24
	verifAssert(tag == v.TLTag(), "boxed-starts-with-TLTag")
}
