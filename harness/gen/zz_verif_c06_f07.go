//go:build verif

package internal

func init() { verifRegister("VerifC06x_f07", VerifC06x_f07) }

// dictionaries: object form in any key order, values as numbers or decimal strings (the array-of-pairs form of the primer is
// not accepted by map-backed readers and is not among the forms the property lists)
func VerifC06x_f07() {
	n := verifSmallI32()
	verifAssume(n != 0)
	N := verifI32JSON(n)
	cases := []verifAltCase{
		{name: "string-dict-unsorted-object", alt: `{"s":{"b":` + N + `,"a":"1"}}`, canon: `{"s":{"a":1,"b":` + N + `}}`},
		{name: "int-dict-unsorted-object", alt: `{"i":{"2":"` + N + `","1":5}}`, canon: `{"i":{"1":5,"2":` + N + `}}`},
		{name: "dict-duplicate-key", alt: `{"s":{"a":1},"s":{"a":1}}`, reject: true},
		{name: "dict-unknown-top-level-key", alt: `{"s":{},"zz":1}`, reject: true},
	}
	c := cases[verifChoice(len(cases))]
	verifRunAlt(func() interface{} { return &F07Dicts{} }, c)
}
