//go:build verif

package internal

func init() {
	verifRegister("VerifC06x_f02", VerifC06x_f02)
	verifRegister("VerifC06x_f02chain", VerifC06x_f02chain)
}

// nested field masks (f02.chain f0:# f1:f0.0?# f2:f1.1?# t1:f0.0?%True t2:f1.1?%True t3:f2.2?%True): a present field implies its bit
// in its own mask AND, transitively, the bits that make each enclosing mask present (different bit numbers at every level)
func VerifC06x_f02chain() {
	u := verifU32()
	verifAssume(u < 1000)
	N := verifU32JSON(u)
	N4 := verifU32JSON(u | 4)
	tl2 := verifDesc_F02Chain.hasTL2 // generated with TL2 the true-typed fields are independent bits: compare through TL1 only
	cases := []verifAltCase{
		{name: "nested-mask-implied-by-true-field", alt: `{"t2":true}`, canon: `{"f0":1,"f1":2,"t2":true}`, tl1Only: tl2},
		{name: "nested-mask-implied-by-mask-field", alt: `{"f2":` + N + `}`, canon: `{"f0":1,"f1":2,"f2":` + N + `}`, tl1Only: tl2},
		{name: "three-levels-implied-by-true-field", alt: `{"t3":true}`, canon: `{"f0":1,"f1":2,"f2":4,"t3":true}`, tl1Only: tl2},
		{name: "three-levels-with-explicit-innermost", alt: `{"f2":` + N4 + `,"t3":true}`, canon: `{"f0":1,"f1":2,"f2":` + N4 + `,"t3":true}`, tl1Only: tl2},
		{name: "first-level-implied-by-mask-field", alt: `{"f1":` + N + `}`, canon: `{"f0":1,"f1":` + N + `}`, tl1Only: tl2},
	}
	c := cases[verifChoice(len(cases))]
	verifRunAlt(func() interface{} { return &F02Chain{} }, c)
}

// local field masks: a present masked field implies its bit; true-typed fields as booleans
func VerifC06x_f02() {
	n := verifSmallI32()
	N := verifI32JSON(n)
	cases := []verifAltCase{
		{name: "masked-field-implies-bit", alt: `{"a":` + N + `}`, canon: `{"m":1,"a":` + N + `}`},
		{name: "mask-with-explicit-bit-and-field", alt: `{"m":1,"a":"` + N + `"}`, canon: `{"m":1,"a":` + N + `}`},
		// f02.local has TWO true-typed fields (c, e) on mask bit 2: generated with TL2 they are independent `bit` fields, so an
		// explicit "m":4 marks both while "c":true marks c only; the TL1 values coincide, the TL2/JSON views need not
		{name: "true-field-as-true-implies-bit", alt: `{"c":true}`, canon: `{"m":4,"c":true}`, tl1Only: verifDesc_F02Local.hasTL2},
		{name: "true-field-false-with-bit-clear", alt: `{"c":false}`, canon: `{}`},
		{name: "two-masked-fields", alt: `{"a":` + N + `,"d":` + N + `}`, canon: `{"m":2147483649,"a":` + N + `,"d":` + N + `}`},
		{name: "unknown-key", alt: `{"m":1,"a":` + N + `,"zz":0}`, reject: true},
		{name: "duplicate-key", alt: `{"a":` + N + `,"a":` + N + `}`, reject: true},
	}
	if !verifDesc_F02Local.hasTL2 {
		// documented for types generated WITHOUT TL2: a true-typed field given as false while its mask bit is set contradicts the mask
		cases = append(cases, verifAltCase{name: "true-field-false-while-bit-set-without-tl2", alt: `{"m":4,"c":false}`, reject: true})
	}
	c := cases[verifChoice(len(cases))]
	verifRunAlt(func() interface{} { return &F02Local{} }, c)
}
