//go:build verif

package internal

func init() {
	verifRegister("VerifC11_F20User", VerifC11_F20User)
	verifRegister("VerifC11_F20UserAccept", VerifC11_F20UserAccept)
}

// f20.point = x:int32 y:int32 (required fields equal to zero are elided)
func refF20Point(v *F20Point) []byte {
	return refTL2Object(nil, []bool{v.X != 0, v.Y != 0}, [][]byte{refU32(nil, uint32(v.X)), refU32(nil, uint32(v.Y))})
}

// f20.user = id:int64 name:string title?:string married:bool set:bit extra?:f20.point
func refF20User(v *F20User) []byte {
	married := []byte{0}
	if v.Married {
		married = []byte{1}
	}
	return refTL2Object(nil,
		[]bool{v.Id != 0, v.Name != "", v.IsSetTitle(), v.Married, v.IsSetSet(), v.IsSetExtra()},
		[][]byte{refU64(nil, uint64(v.Id)), refTL2String(nil, v.Name), refTL2String(nil, v.Title), married, nil, refF20Point(&v.Extra)})
}

func VerifC11_F20User() {
	v := verifAny_F20User(1)
	verifCover("value")
	ref := refF20User(&v)
	w := v.WriteTL2(nil, nil)
	verifAssert(verifBytesEq(w, ref), "generated-tl2-equals-reference:f20.user")
	var u F20User
	rest, err := u.ReadTL2(ref, nil)
	verifAssert(err == nil && len(rest) == 0, "reader-accepts-reference-tl2:f20.user")
	if err == nil {
		verifAssert(verifBytesEq(u.WriteTL2(nil, nil), ref), "reader-reproduces-reference-tl2-value:f20.user")
	}
}

// everything the reader accepts decodes to a value whose MINIMAL reference encoding the writer produces (TL2 readers accept
// non-minimal forms by design, so the accepted bytes themselves need not be the reference bytes)
func VerifC11_F20UserAccept() {
	b := verifBytes(verifParam("N", 20))
	var v F20User
	_, err := v.ReadTL2(b, nil)
	if err != nil {
		return
	}
	verifCover("accepted")
	verifAssert(verifBytesEq(v.WriteTL2(nil, nil), refF20User(&v)), "decoded-value-is-written-as-its-reference-encoding:f20.user")
}
