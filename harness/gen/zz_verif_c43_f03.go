//go:build verif

package internal

// C43 typed case: accessors of fields under an EXTERNAL field mask (f03.inner {f:#} {n:#} a:f.0?# b:f.3?%True ... inside
// f03.outer f:# n:# inner:(f03.inner f n)). The setter takes a pointer to the mask: with the owner's mask passed, presence must
// follow in TL1, TL2 and JSON of the owner; with nil (the caller manages the mask itself) the field must still be reported present
// and be emitted in TL2 and JSON, which are driven by the struct-local presence bits.

func init() { verifRegister("VerifC43x_f03", VerifC43x_f03) }

func VerifC43x_f03() {
	o := verifAny_F03Outer(verifParam("D", 1))
	o.RepairMasks()
	x := verifU32()
	withMask := verifBool()
	var m *uint32
	if withMask {
		m = &o.F
	}
	fBefore := o.F
	switch verifChoice(4) {
	case 0:
		verifCover("set-a")
		o.Inner.SetA(x, m)
		verifAssert(o.Inner.IsSetA(), "set-makes-present")
		verifAssert(o.Inner.A == x, "set-stores-the-value")
		if withMask {
			verifAssert(o.F == fBefore|1, "set-sets-exactly-its-mask-bit")
		} else {
			verifAssert(o.F == fBefore, "nil-mask-pointer-leaves-the-owner-mask-alone")
		}
	case 1:
		verifCover("clear-a")
		o.Inner.ClearA(m)
		verifAssert(!o.Inner.IsSetA(), "clear-makes-absent")
		if withMask {
			verifAssert(o.F == fBefore&^1, "clear-clears-exactly-its-mask-bit")
		}
	case 2:
		verifCover("set-b")
		v := verifBool()
		o.Inner.SetB(v, m)
		verifAssert(o.Inner.IsSetB() == v, "isset-follows-setter")
		if withMask {
			want := fBefore &^ 8
			if v {
				want = fBefore | 8
			}
			verifAssert(o.F == want, "true-setter-sets-exactly-its-mask-bit")
		}
	case 3:
		verifCover("set-d")
		verifAssume(o.N <= 2)
		d := make([]int32, o.N) // d:f.1?n*[int] must have exactly n elements to be writable
		o.Inner.SetD(d, m)
		verifAssert(o.Inner.IsSetD(), "set-makes-present")
		if withMask {
			verifAssert(o.F == fBefore|2, "set-sets-exactly-its-mask-bit")
		}
	}
	if !withMask {
		return
	}
	// with the owner's mask updated, the three encodings of the OWNER agree with the accessors: re-reading each reproduces the flags
	w, err := o.WriteTL1General(nil) // unwritable when the arbitrary value's array lengths disagree with n: not this property's subject
	if err == nil {
		verifCover("owner-written")
		var u F03Outer
		_, err = u.ReadTL1(w)
		verifAssert(err == nil, "owner-tl1-reads-back")
		if err == nil {
			verifAssert(u.Inner.IsSetA() == o.Inner.IsSetA() && u.Inner.IsSetB() == o.Inner.IsSetB() && u.Inner.IsSetD() == o.Inner.IsSetD(), "tl1-presence-follows-accessors")
		}
	}
	if verifDesc_F03Outer.hasTL2 {
		var u F03Outer
		_, err := u.ReadTL2(o.WriteTL2(nil, nil), nil)
		verifAssert(err == nil, "owner-tl2-reads-back")
		if err == nil {
			verifAssert(u.Inner.IsSetA() == o.Inner.IsSetA() && u.Inner.IsSetB() == o.Inner.IsSetB() && u.Inner.IsSetD() == o.Inner.IsSetD(), "tl2-presence-follows-accessors")
		}
	}
}
