//go:build verif

package internal

func init() {
	verifRegister("VerifC11_F06Maybes", VerifC11_F06Maybes)
	verifRegister("VerifC11_F06MaybesAccept", VerifC11_F06MaybesAccept)
}

// f06.maybes a:(Maybe int) b:(Maybe string) c:(Maybe (vector int)) d:(Maybe (Maybe int)) e:(Maybe True) f:(Maybe Bool)
// Maybe = resultFalse tag | resultTrue tag + value
func refF06Maybes(v *F06Maybes) []byte {
	var w []byte
	m := func(ok bool) bool {
		if ok {
			w = refU32(w, refMaybeTrue)
		} else {
			w = refU32(w, refMaybeFalse)
		}
		return ok
	}
	if m(v.A.Ok) {
		w = refU32(w, uint32(v.A.Value))
	}
	if m(v.B.Ok) {
		w = refString(w, v.B.Value)
	}
	if m(v.C.Ok) {
		w = refU32(w, uint32(len(v.C.Value)))
		for _, x := range v.C.Value {
			w = refU32(w, uint32(x))
		}
	}
	if m(v.D.Ok) {
		if m(v.D.Value.Ok) {
			w = refU32(w, uint32(v.D.Value.Value))
		}
	}
	if m(v.E.Ok) {
		w = refU32(w, 0x3fedd339) // boxed True: its tag (crc32 of "true = True")
	}
	if m(v.F.Ok) {
		w = refBool(w, v.F.Value)
	}
	return w
}

func VerifC11_F06Maybes() {
	v := verifAny_F06Maybes(1)
	verifCover("value")
	verifC11TL1(&v, func() verifTL1 { return &F06Maybes{} }, refF06Maybes(&v), "f06.maybes")
}

func VerifC11_F06MaybesAccept() {
	b := verifBytes(verifParam("N", 40))
	var v F06Maybes
	rest, err := v.ReadTL1(b)
	if err != nil {
		return
	}
	verifCover("accepted")
	n := len(b) - len(rest)
	verifAssert(verifBytesEq(refF06Maybes(&v), b[:n]), "accepted-input-is-the-reference-encoding:f06.maybes")
}
