//go:build verif

package internal

// C34: JSON primitive writers of pkg/basictl against the generated Json2Read* helpers and jlexer (loaded next to the
// generated code of schemas/f/f01 so that both sides are the real code).

import (
	"unicode/utf8"

	"github.com/VKCOM/tl/pkg/basictl"
)

func init() {
	verifRegister("VerifC34String", VerifC34String)
	verifRegister("VerifC34StringBytes", VerifC34StringBytes)
	verifRegister("VerifC34Uint32", VerifC34Uint32)
	verifRegister("VerifC34Int32", VerifC34Int32)
	verifRegister("VerifC34Int64", VerifC34Int64)
	verifRegister("VerifC34Uint64", VerifC34Uint64)
	verifRegister("VerifC34Floats", VerifC34Floats)
	verifRegister("VerifC34Bool", VerifC34Bool)
}

// reference UTF-8 well-formedness (RFC 3629 table), independent of unicode/utf8
func verifUTF8OK(s string) bool {
	i := 0
	for i < len(s) {
		c := s[i]
		switch {
		case c < 0x80:
			i++
		case c >= 0xC2 && c <= 0xDF:
			if i+1 >= len(s) || s[i+1] < 0x80 || s[i+1] > 0xBF {
				return false
			}
			i += 2
		case c >= 0xE0 && c <= 0xEF:
			if i+2 >= len(s) {
				return false
			}
			lo, hi := byte(0x80), byte(0xBF)
			if c == 0xE0 {
				lo = 0xA0
			}
			if c == 0xED {
				hi = 0x9F
			}
			if s[i+1] < lo || s[i+1] > hi || s[i+2] < 0x80 || s[i+2] > 0xBF {
				return false
			}
			i += 3
		case c >= 0xF0 && c <= 0xF4:
			if i+3 >= len(s) {
				return false
			}
			lo, hi := byte(0x80), byte(0xBF)
			if c == 0xF0 {
				lo = 0x90
			}
			if c == 0xF4 {
				hi = 0x8F
			}
			if s[i+1] < lo || s[i+1] > hi || s[i+2] < 0x80 || s[i+2] > 0xBF || s[i+3] < 0x80 || s[i+3] > 0xBF {
				return false
			}
			i += 4
		default:
			return false
		}
	}
	return true
}

func verifHasPrefix(b []byte, p string) bool {
	if len(b) < len(p) {
		return false
	}
	for i := 0; i < len(p); i++ {
		if b[i] != p[i] {
			return false
		}
	}
	return true
}

// VerifC34String: for EVERY byte string of length <= strlen: valid JSON; decodes to the same text (valid UTF-8) or is the
// base64 object holding the same bytes (otherwise).
func VerifC34String() {
	s := verifStringN(verifLen(verifParam("jstrlen", 3)))
	out := basictl.JSONWriteString(nil, s)
	verifAssert(verifValidJSON(out), "string-json-is-valid")
	valid := utf8.ValidString(s)
	verifAssert(valid == verifUTF8OK(s), "utf8-validity-matches-rfc3629")
	if valid {
		verifCover("utf8")
		verifAssert(len(out) >= 2 && out[0] == '"', "valid-utf8-written-as-json-string")
	} else {
		verifCover("not-utf8")
		verifAssert(verifHasPrefix(out, `{"base64":"`), "invalid-utf8-written-as-base64-object")
	}
	var back string
	err := Json2ReadString(&basictl.JsonLexer{Data: out}, &back)
	verifAssert(err == nil, "string-reads-back")
	if err == nil {
		verifAssert(back == s, "string-reads-back-identical")
	}
}

// the []byte twin must stay in sync with the string version
func VerifC34StringBytes() {
	s := verifStringN(verifLen(verifParam("jstrlen", 3)))
	a := basictl.JSONWriteString(nil, s)
	b := basictl.JSONWriteStringBytes(nil, []byte(s))
	verifCover("compared")
	verifAssert(verifBytesEq(a, b), "bytes-writer-equals-string-writer")
	var back []byte
	err := Json2ReadStringBytes(&basictl.JsonLexer{Data: b}, &back)
	verifAssert(err == nil, "bytes-reads-back")
	if err == nil {
		verifAssert(string(back) == s, "bytes-reads-back-identical")
	}
}

func verifQuote(w []byte) []byte {
	q := append([]byte{'"'}, w...)
	return append(q, '"')
}

func VerifC34Uint32() {
	v := verifU32()
	w := basictl.JSONWriteUint32(nil, v)
	verifCover("written")
	verifAssert(verifValidJSON(w), "number-json-is-valid")
	var back uint32
	err := Json2ReadUint32(&basictl.JsonLexer{Data: w}, &back)
	verifAssert(err == nil && back == v, "uint32-reads-back")
	err = Json2ReadUint32(&basictl.JsonLexer{Data: verifQuote(w)}, &back)
	verifAssert(err == nil && back == v, "uint32-as-decimal-string-reads-back")
}

func VerifC34Int32() {
	v := verifI32()
	w := basictl.JSONWriteInt32(nil, v)
	verifCover("written")
	verifAssert(verifValidJSON(w), "number-json-is-valid")
	var back int32
	err := Json2ReadInt32(&basictl.JsonLexer{Data: w}, &back)
	verifAssert(err == nil && back == v, "int32-reads-back")
	err = Json2ReadInt32(&basictl.JsonLexer{Data: verifQuote(w)}, &back)
	verifAssert(err == nil && back == v, "int32-as-decimal-string-reads-back")
}

func VerifC34Int64() {
	v := verifI64()
	w := basictl.JSONWriteInt64(nil, v)
	verifCover("written")
	verifAssert(verifValidJSON(w), "number-json-is-valid")
	var back int64
	err := Json2ReadInt64(&basictl.JsonLexer{Data: w}, &back)
	verifAssert(err == nil && back == v, "int64-reads-back")
}

func VerifC34Uint64() {
	v := verifU64()
	w := basictl.JSONWriteUint64(nil, v)
	verifCover("written")
	verifAssert(verifValidJSON(w), "number-json-is-valid")
	var back uint64
	err := Json2ReadUint64(&basictl.JsonLexer{Data: w}, &back)
	verifAssert(err == nil && back == v, "uint64-reads-back")
}

// floats: the three specials symbolically selected, finite values from a fixed table (the Ryu / Eisel-Lemire code of strconv
// is executed natively on concrete values; arbitrary finite floats are outside the solver's reach and stated so)
func VerifC34Floats() {
	negZero := verifF64frombits(0x8000000000000000)
	specials := []float64{verifNaN(), verifInf(1), verifInf(-1), 0, negZero, 1, -1, -1.5, 0.5, 3.4028234663852886e38, -3.4028234663852886e38, 1e-45, -1e-45, 5e-324, -5e-324,
		1.7976931348623157e308, -1.7976931348623157e308, 2.2250738585072014e-308, 1.1754943508222875e-38, 0.1, -0.1, 16777216, 16777217, 9007199254740992, 9007199254740993,
		1e21, 1e20, 1e-7, 123456789, 2147483648, -2147483648, 9223372036854775808, -9223372036854775808, 4294967296, 0.30000000000000004, 1e300}
	f := specials[verifChoice(len(specials))]
	verifCover("float")
	w64 := basictl.JSONWriteFloat64(nil, f)
	verifAssert(verifValidJSON(w64), "float64-json-is-valid")
	var b64 float64
	err := Json2ReadFloat64(&basictl.JsonLexer{Data: w64}, &b64)
	verifAssert(err == nil, "float64-reads-back")
	if err == nil {
		if f != f {
			verifAssert(b64 != b64, "nan-reads-back-as-nan")
		} else {
			verifAssert(verifF64bits(b64) == verifF64bits(f), "float64-reads-back-bit-exact")
		}
	}
	f32 := float32(f)
	w32 := basictl.JSONWriteFloat32(nil, f32)
	verifAssert(verifValidJSON(w32), "float32-json-is-valid")
	var b32 float32
	err = Json2ReadFloat32(&basictl.JsonLexer{Data: w32}, &b32)
	verifAssert(err == nil, "float32-reads-back")
	if err == nil {
		if f32 != f32 {
			verifAssert(b32 != b32, "nan32-reads-back-as-nan")
		} else {
			verifAssert(verifF32bits(b32) == verifF32bits(f32), "float32-reads-back-bit-exact")
		}
	}
}

func VerifC34Bool() {
	v := verifBool()
	w := basictl.JSONWriteBool(nil, v)
	verifCover("bool")
	verifAssert(verifValidJSON(w), "bool-json-is-valid")
	var back bool
	err := Json2ReadBool(&basictl.JsonLexer{Data: w}, &back)
	verifAssert(err == nil && back == v, "bool-reads-back")
}
