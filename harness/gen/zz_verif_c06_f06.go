//go:build verif

package internal

func init() { verifRegister("VerifC06x_f06", VerifC06x_f06) }

// Maybe: with / without "ok", empty value, Nothing; ok:false with a value is rejected; masked Maybe implies its mask bit.
func VerifC06x_f06() {
	n := verifSmallI32()
	verifAssume(n != 0)
	N := verifI32JSON(n)
	s := verifStringN(1)
	verifAssume(s[0] >= 'a' && s[0] <= 'z')
	S := verifStrJSON(s)
	cases := []verifAltCase{
		{name: "maybe-without-ok", alt: `{"a":{"value":` + N + `}}`, canon: `{"a":{"ok":true,"value":` + N + `}}`},
		{name: "maybe-ok-without-value-is-empty-value", alt: `{"a":{"ok":true}}`, canon: `{"a":{"ok":true}}`},
		{name: "maybe-empty-object-is-nothing", alt: `{"a":{}}`, canon: `{}`},
		{name: "maybe-ok-false-is-nothing", alt: `{"a":{"ok":false}}`, canon: `{}`},
		{name: "maybe-ok-false-with-value", alt: `{"a":{"ok":false,"value":` + N + `}}`, reject: true},
		{name: "maybe-value-then-ok-false", alt: `{"a":{"value":` + N + `,"ok":false}}`, reject: true},
		{name: "maybe-string-value-then-ok-false", alt: `{"b":{"value":` + S + `,"ok":false}}`, reject: true},
		{name: "maybe-vector-ok-false-with-value", alt: `{"c":{"value":[` + N + `],"ok":false}}`, reject: true},
		{name: "maybe-value-then-ok-true", alt: `{"a":{"value":` + N + `,"ok":true}}`, canon: `{"a":{"ok":true,"value":` + N + `}}`},
		{name: "maybe-string-without-ok", alt: `{"b":{"value":` + S + `}}`, canon: `{"b":{"ok":true,"value":` + S + `}}`},
		{name: "maybe-number-as-string", alt: `{"a":{"ok":true,"value":"` + N + `"}}`, canon: `{"a":{"ok":true,"value":` + N + `}}`},
		{name: "nested-maybe", alt: `{"d":{"value":{"value":` + N + `}}}`, canon: `{"d":{"ok":true,"value":{"ok":true,"value":` + N + `}}}`},
		{name: "maybe-vector", alt: `{"c":{"value":[` + N + `,"` + N + `"]}}`, canon: `{"c":{"ok":true,"value":[` + N + `,` + N + `]}}`},
		{name: "maybe-unknown-key", alt: `{"a":{"ok":true,"value":` + N + `,"x":1}}`, reject: true},
		{name: "maybe-duplicate-key", alt: `{"a":{"ok":true,"ok":true}}`, reject: true},
	}
	c := cases[verifChoice(len(cases))]
	verifRunAlt(func() interface{} { return &F06Maybes{} }, c)
}
