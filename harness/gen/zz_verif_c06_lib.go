//go:build verif

package internal

// C06 typed cases: documented alternative JSON forms decode to the same value as the canonical form; documented invalid
// forms are rejected. Leaves (numbers, strings) are symbolic: texts are assembled from the real basictl JSON writers.

import "github.com/VKCOM/tl/pkg/basictl"

type verifAltCase struct {
	name   string
	alt    string // alternative text ("" = none)
	canon  string // canonical text the alternative must be equivalent to
	reject bool   // alt must be rejected
	tl1Only bool  // compare the decoded values through TL1 only (see the f02 case)
}

func verifI32JSON(v int32) string   { return string(basictl.JSONWriteInt32(nil, v)) }
func verifU32JSON(v uint32) string  { return string(basictl.JSONWriteUint32(nil, v)) }
func verifStrJSON(s string) string  { return string(basictl.JSONWriteString(nil, s)) }
func verifSmallI32() int32 {
	v := verifI32()
	verifAssume(v > -1000 && v < 1000)
	return v
}

// verifRunAlt decodes alt and canon into fresh objects and compares their TL1 (or TL2) encodings.
func verifRunAlt(newObj func() interface{}, c verifAltCase) {
	o := newObj()
	err := verifReadJSON(o.(verifJSON), []byte(c.alt))
	if c.reject {
		verifCover("rejection")
		verifAssert(err != nil, "rejected:"+c.name)
		return
	}
	verifCover("alternative")
	verifAssert(err == nil, "accepted:"+c.name)
	if err != nil {
		return
	}
	o2 := newObj()
	err = verifReadJSON(o2.(verifJSON), []byte(c.canon))
	verifAssert(err == nil, "canonical-accepted:"+c.name)
	if err != nil {
		return
	}
	w1, e1 := o.(verifTL1).WriteTL1General(nil)
	w2, e2 := o2.(verifTL1).WriteTL1General(nil)
	verifAssert(e1 == nil && e2 == nil && verifBytesEq(w1, w2), "same-value:"+c.name)
	// both forms are written back identically (the writer's canonical form does not depend on the input spelling)
	if c.tl1Only {
		return
	}
	j1, _ := verifWriteJSON(o.(verifJSON))
	j2, _ := verifWriteJSON(o2.(verifJSON))
	verifAssert(verifBytesEq(j1, j2), "same-json-written-back:"+c.name)
}
