//go:build verif

package internal

func init() {
	verifRegister("VerifC11_F04Arrays", VerifC11_F04Arrays)
	verifRegister("VerifC11_F04ArraysAccept", VerifC11_F04ArraysAccept)
}

// f04.arrays n:# a:n*[int] v:(vector int) t:(tuple int 3) tt:(tuple (tuple int 2) 2) vs:(vector string)
func refF04Arrays(v *F04Arrays) []byte {
	w := refU32(nil, v.N)
	for _, x := range v.A { // n elements, no count
		w = refU32(w, uint32(x))
	}
	w = refU32(w, uint32(len(v.V))) // vector = count + elements
	for _, x := range v.V {
		w = refU32(w, uint32(x))
	}
	for _, x := range v.T {
		w = refU32(w, uint32(x))
	}
	for _, r := range v.Tt {
		for _, x := range r {
			w = refU32(w, uint32(x))
		}
	}
	w = refU32(w, uint32(len(v.Vs)))
	for _, s := range v.Vs {
		w = refString(w, s)
	}
	return w
}

func VerifC11_F04Arrays() {
	v := verifAny_F04Arrays(1)
	w, err := v.WriteTL1General(nil)
	if int(v.N) != len(v.A) {
		verifCover("length-mismatch")
		verifAssert(err != nil, "array-length-disagreeing-with-size-parameter-is-a-write-error")
		return
	}
	verifCover("value")
	verifAssert(err == nil, "valid-value-is-written")
	_ = w
	verifC11TL1(&v, func() verifTL1 { return &F04Arrays{} }, refF04Arrays(&v), "f04.arrays")
}

func VerifC11_F04ArraysAccept() {
	b := verifBytes(verifParam("N", 52))
	var v F04Arrays
	rest, err := v.ReadTL1(b)
	if err != nil {
		return
	}
	verifCover("accepted")
	n := len(b) - len(rest)
	verifAssert(int(v.N) == len(v.A), "decoded-array-length-is-the-size-parameter")
	verifAssert(verifBytesEq(refF04Arrays(&v), b[:n]), "accepted-input-is-the-reference-encoding:f04.arrays")
}
