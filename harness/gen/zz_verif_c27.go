//go:build verif

package internal

// C27: the code generated for a MIGRATED schema (this package) against the code generated for the original TL1 schema with
// the same TL2 whitelist (package vmod/mig/gen/internal, imported by the generated pairs file): same TL2 acceptance, same
// TL2 bytes, same JSON, for every input the readers decode from <= N arbitrary bytes.

type verifMigPair struct {
	name string
	a, b func() interface{} // a: original schema, b: migrated schema
}

func init() {
	for _, p := range verifMigPairs {
		p := p
		verifRegister("VerifC27_"+p.name, func() { verifC27Pair(p) })
	}
}

func verifC27Pair(p verifMigPair) {
	in := verifBytes(verifParam("N", 12))
	a, b := p.a().(verifTL2), p.b().(verifTL2)
	r1, e1 := a.ReadTL2(in, nil)
	r2, e2 := b.ReadTL2(in, nil)
	verifAssert((e1 == nil) == (e2 == nil), "same-tl2-acceptance:"+p.name)
	if e1 != nil || e2 != nil {
		verifCover("rejected")
		return
	}
	verifCover("accepted")
	verifAssert(len(r1) == len(r2), "same-consumed-length:"+p.name)
	verifAssert(verifBytesEq(a.WriteTL2(nil, nil), b.WriteTL2(nil, nil)), "same-tl2-encoding:"+p.name)
	ja, okA := a.(verifJSON)
	jb, okB := b.(verifJSON)
	if okA && okB {
		j1, x1 := verifWriteJSON(ja)
		j2, x2 := verifWriteJSON(jb)
		verifAssert((x1 == nil) == (x2 == nil), "same-json-writability:"+p.name)
		if x1 == nil && x2 == nil {
			verifAssert(verifBytesEq(j1, j2), "same-json:"+p.name)
		}
	}
}
