//go:build verif

package internal

func init() {
	verifRegister("VerifC11_F02Local", VerifC11_F02Local)
	verifRegister("VerifC11_F02LocalAccept", VerifC11_F02LocalAccept)
}

// f02.local m:# a:m.0?int b:m.1?string c:m.2?%True d:m.31?long e:m.2?%True
func refF02Local(v *F02Local) []byte {
	w := refU32(nil, v.M)
	if v.M&(1<<0) != 0 {
		w = refU32(w, uint32(v.A))
	}
	if v.M&(1<<1) != 0 {
		w = refString(w, v.B)
	}
	// %True occupies no bytes
	if v.M&(1<<31) != 0 {
		w = refU64(w, uint64(v.D))
	}
	return w
}

func VerifC11_F02Local() {
	v := verifAny_F02Local(1)
	verifCover("value")
	verifC11TL1(&v, func() verifTL1 { return &F02Local{} }, refF02Local(&v), "f02.local")
}

func VerifC11_F02LocalAccept() {
	b := verifBytes(verifParam("N", 28))
	var v F02Local
	rest, err := v.ReadTL1(b)
	if err != nil {
		return
	}
	verifCover("accepted")
	n := len(b) - len(rest)
	verifAssert(verifBytesEq(refF02Local(&v), b[:n]), "accepted-input-is-the-reference-encoding:f02.local")
}
