//go:build verif

package internal

// C13 (nested part): a schema-directed TL2 RE-ENCODER written from docs/TL2Primer.pdf. It walks the minimal encoding w of a
// value along a hand-written wire shape of its type and re-emits it with ONE admissible non-minimal choice at a chosen site
// anywhere in the nesting: a size-like integer (object size, string length, element count, union constructor number) in the
// huge 0xFF+u64 form; an empty object as an explicit zero presence byte; unknown trailing bytes (a field appended by a newer
// schema, optionally with its presence bit set) inside a nested object. All enclosing sizes are recomputed. The generated
// reader must accept the result, consume it, and decode the same value as from the minimal encoding.

func init() {
	verifRegister("VerifC13Nested_OldDeep", VerifC13Nested_OldDeep)
	verifRegister("VerifC13Nested_OldBox", VerifC13Nested_OldBox)
	verifRegister("VerifC13Nested_NewBox", VerifC13Nested_NewBox)
	verifRegister("VerifC13Nested_OldColor", VerifC13Nested_OldColor)
	verifRegister("VerifC13Nested_OldOpt", VerifC13Nested_OldOpt)
}

func VerifC13Nested_OldDeep() {
	v := verifAny_OldDeep(verifParam("D", 1))
	verifC13Nested(shOldDeep, v.WriteTL2(nil, nil), func() verifTL2 { return &OldDeep{} })
}

func VerifC13Nested_OldBox() {
	v := verifAny_OldBox(verifParam("D", 1))
	verifC13Nested(shOldBox, v.WriteTL2(nil, nil), func() verifTL2 { return &OldBox{} })
}

func VerifC13Nested_NewBox() {
	v := verifAny_NewBox(verifParam("D", 1))
	verifC13Nested(shNewBox, v.WriteTL2(nil, nil), func() verifTL2 { return &NewBox{} })
}

func VerifC13Nested_OldColor() {
	v := verifAny_OldColor(verifParam("D", 1))
	verifC13Nested(shOldColor, v.WriteTL2(nil, nil), func() verifTL2 { return &OldColor{} })
}

func VerifC13Nested_OldOpt() {
	v := verifAny_OldOpt(verifParam("D", 1))
	verifC13Nested(shOldOpt, v.WriteTL2(nil, nil), func() verifTL2 { return &OldOpt{} })
}

const (
	shFixed = iota // n raw bytes
	shBit          // no payload (bit / true)
	shStr          // size + bytes
	shObj          // size + body(presence blocks, fields f)
	shUnion        // size + body(block, [constructor number], fields of the variant v[k])
	shVec          // size + (count + elements e)   -- also dictionaries: vectors of key/value objects
)

type verifShape struct {
	k int
	n int
	f []*verifShape
	v [][]*verifShape
	e *verifShape
}

var (
	shI32      = &verifShape{k: shFixed, n: 4}
	shI64      = &verifShape{k: shFixed, n: 8}
	shB1       = &verifShape{k: shFixed, n: 1}
	shBitT     = &verifShape{k: shBit}
	shString   = &verifShape{k: shStr}
	shOldPoint = &verifShape{k: shObj, f: []*verifShape{shI32, shI32}}
	shNewPoint = &verifShape{k: shObj, f: []*verifShape{shI32, shI32, shI32, shString}}
	shOldColor = &verifShape{k: shUnion, v: [][]*verifShape{{}, {}, {}}}
	shOldRes   = &verifShape{k: shUnion, v: [][]*verifShape{{shOldPoint}, {}}}
	shNewRes   = &verifShape{k: shUnion, v: [][]*verifShape{{shNewPoint}, {}, {shString}}}
	shOldBox   = &verifShape{k: shObj, f: []*verifShape{{k: shVec, e: shOldPoint}, shOldRes, shI32}}
	shNewBox   = &verifShape{k: shObj, f: []*verifShape{{k: shVec, e: shNewPoint}, shNewRes, shI32, {k: shVec, e: shI64}, shBitT}}
	shMaybePt  = &verifShape{k: shUnion, v: [][]*verifShape{{}, {shOldPoint}}}
	shOldOpt   = &verifShape{k: shObj, f: []*verifShape{shMaybePt, shOldColor, {k: shVec, e: shI32}}}
	shOldDeep  = &verifShape{k: shObj, f: []*verifShape{shOldColor, shOldPoint, {k: shVec, e: shB1}, {k: shVec, e: shString}, shOldRes, {k: shVec, e: shOldPoint},
		{k: shVec, e: &verifShape{k: shObj, f: []*verifShape{shString, shI32}}}}}
)

type verifReenc struct {
	mode    int // 0 one size-like integer in huge form; 1 all of them; 2 one empty object as an explicit zero presence byte; 3 unknown bytes appended inside one nested object
	applied bool
	bad     bool // the minimal encoding does not follow the shape (a defect of C11's subject, not of this property)
	setBit  bool
	junk    []byte
}

func (st *verifReenc) parse(r []byte) (int, []byte) {
	if len(r) == 0 {
		st.bad = true
		return 0, r
	}
	b := r[0]
	if b <= 253 {
		return int(b), r[1:]
	}
	if b == 254 {
		if len(r) < 3 {
			st.bad = true
			return 0, r
		}
		return 254 + int(r[1]) + int(r[2])<<8, r[3:]
	}
	st.bad = true // the writer emits the huge form only from 65790 on: outside the bound
	return 0, r
}

// pick: the site is chosen by one binary decision per candidate site (so every site of every value is a path, none is wasted)
func (st *verifReenc) pick() bool {
	if st.applied || verifChoice(2) == 0 {
		return false
	}
	st.applied = true
	return true
}

func (st *verifReenc) size(w []byte, n int) []byte {
	if st.mode == 1 || (st.mode == 0 && st.pick()) {
		st.applied = true
		return append(w, verifHuge(n)...)
	}
	return refVarlen(w, n)
}

// value re-encodes one value of shape t from the front of r, returns (re-encoding, rest of r)
func (st *verifReenc) value(t *verifShape, r []byte, top bool) ([]byte, []byte) {
	if st.bad {
		return nil, r
	}
	switch t.k {
	case shFixed:
		if len(r) < t.n {
			st.bad = true
			return nil, r
		}
		return append([]byte(nil), r[:t.n]...), r[t.n:]
	case shBit:
		return nil, r
	}
	n, r := st.parse(r)
	if st.bad || len(r) < n {
		st.bad = true
		return nil, r
	}
	body, rest := r[:n], r[n:]
	var nb []byte
	switch t.k {
	case shStr:
		nb = append(nb, body...)
	case shVec:
		if n != 0 {
			cnt, b2 := st.parse(body)
			nb = st.size(nb, cnt)
			for i := 0; i < cnt && !st.bad; i++ {
				var e []byte
				e, b2 = st.value(t.e, b2, false)
				nb = append(nb, e...)
			}
			if len(b2) != 0 {
				st.bad = true
			}
		}
	case shObj, shUnion:
		nb = st.object(t, body, top)
	}
	var out []byte
	out = st.size(out, len(nb))
	return append(out, nb...), rest
}

func (st *verifReenc) object(t *verifShape, body []byte, top bool) []byte {
	if len(body) == 0 {
		if st.mode == 2 && st.pick() {
			return []byte{0}
		}
		if st.mode == 3 && !top && len(t.f) < 7 && t.k == shObj && st.pick() {
			blk := byte(0)
			if st.setBit {
				blk = 1 << uint(len(t.f)+1)
			}
			return append([]byte{blk}, st.junk...)
		}
		return nil
	}
	fields := t.f
	var nb []byte
	blockPos := 0
	block := body[0]
	nb = append(nb, block)
	r := body[1:]
	if t.k == shUnion {
		idx := 0
		if block&1 != 0 {
			idx, r = st.parse(r)
			nb = st.size(nb, idx)
		}
		if idx >= len(t.v) {
			st.bad = true
			return nil
		}
		fields = t.v[idx]
	} else if block&1 != 0 {
		st.bad = true
		return nil
	}
	for i := 0; i < len(fields) && !st.bad; i++ {
		slot := i + 1
		if slot%8 == 0 { // next presence block
			if len(r) == 0 {
				break // trailing fields missing: empty
			}
			block = r[0]
			blockPos = len(nb)
			nb = append(nb, block)
			r = r[1:]
		}
		if block&(1<<uint(slot%8)) != 0 {
			var e []byte
			e, r = st.value(fields[i], r, false)
			nb = append(nb, e...)
		}
	}
	if len(r) != 0 {
		st.bad = true
	}
	if st.mode == 3 && !top && len(fields) < 7 && !st.bad && st.pick() {
		if st.setBit {
			nb[blockPos] |= 1 << uint(len(fields)+1)
		}
		nb = append(nb, st.junk...)
	}
	return nb
}

func verifC13Nested(t *verifShape, w []byte, fresh func() verifTL2) {
	st := &verifReenc{mode: verifChoice(4)}
	if st.mode == 3 {
		st.setBit = verifChoice(2) == 1
		st.junk = verifBytesN(1 + verifChoice(2))
	}
	alt, rest := st.value(t, w, true)
	if st.bad || len(rest) != 0 {
		verifCover("minimal-encoding-does-not-follow-the-shape") // must stay uncovered on a correct tree (C11 decides it)
		return
	}
	if !st.applied {
		return
	}
	switch st.mode {
	case 0:
		verifCover("one-huge-size")
	case 1:
		verifCover("all-huge-sizes")
	case 2:
		verifCover("nested-explicit-zero-mask")
	case 3:
		verifCover("nested-unknown-trailing-field")
	}
	u := fresh()
	rest2, err := u.ReadTL2(alt, nil)
	verifAssert(err == nil, "nested-non-minimal-encoding-accepted")
	if err != nil {
		return
	}
	verifAssert(len(rest2) == 0, "nested-non-minimal-encoding-consumed")
	verifAssert(verifBytesEq(u.WriteTL2(nil, nil), w), "nested-non-minimal-encoding-decodes-to-the-same-value")
}
