//go:build verif

package internal

// C03 typed case: dictionaries whose VALUES own memory (vectors, nested dictionaries) with two entries each - the shape in which
// a reader that reuses per-entry scratch storage makes entries alias each other. Keys and elements symbolic.

func init() { verifRegister("VerifC03x_f07VecDict", VerifC03x_f07VecDict) }

func VerifC03x_f07VecDict() {
	k1, k2 := verifI32(), verifI32()
	verifAssume(k1 != k2)
	s1, s2 := verifStringN(1), verifStringN(1)
	verifAssume(s1 != s2)
	vec := func() []int32 {
		n := 1 + verifChoice(2)
		out := make([]int32, n)
		for i := range out {
			out[i] = verifI32()
		}
		return out
	}
	var v F07VecDict
	switch verifChoice(3) {
	case 0:
		v.E = map[int32][]int32{k1: vec(), k2: vec()}
	case 1:
		v.D = map[string][]int32{s1: vec(), s2: vec()}
	case 2:
		v.N = map[string]map[string]int32{s1: {s1: k1}, s2: {s2: k2, s1: k1}}
	}
	verifCover("two-entries-owning-memory")
	verifTL2RoundTrip(verifDesc_F07VecDict, &v)
	// TL1 leg of the same shape (C01's subject, same reader family)
	w, err := v.WriteTL1General(nil)
	if err != nil {
		return
	}
	var u F07VecDict
	rest, err := u.ReadTL1(w)
	verifAssert(err == nil && len(rest) == 0, "tl1-read-back-ok")
	if err == nil {
		w2, _ := u.WriteTL1General(nil)
		verifAssert(verifBytesEq(w2, w), "tl1-rewrite-identical")
	}
}
