//go:build verif

package internal

func init() { verifRegister("VerifC06x_f05", VerifC06x_f05) }

// unions and enums: {"type":..,"value":..} / bare type string for field-less variants / enum as string or object
func VerifC06x_f05() {
	n := verifSmallI32()
	verifAssume(n != 0)
	N := verifI32JSON(n)
	h := func(u, e string) string {
		s := `{`
		if u != "" {
			s += `"u":` + u
		}
		if e != "" {
			if u != "" {
				s += `,`
			}
			s += `"e":` + e
		}
		return s + `}`
	}
	cases := []verifAltCase{
		{name: "union-variant-with-value", alt: h(`{"type":"f05.u1","value":{"a":"`+N+`"}}`, ""), canon: h(`{"type":"f05.u1","value":{"a":`+N+`}}`, "")},
		{name: "fieldless-variant-as-string", alt: h(`"f05.u3"`, ""), canon: h(`{"type":"f05.u3"}`, "")},
		{name: "fieldless-variant-with-empty-value", alt: h(`{"type":"f05.u3","value":{}}`, ""), canon: h(`{"type":"f05.u3"}`, "")},
		{name: "variant-with-omitted-empty-value", alt: h(`{"type":"f05.u2"}`, ""), canon: h(`{"type":"f05.u2"}`, "")},
		{name: "enum-as-object", alt: h("", `{"type":"f05.e2"}`), canon: h("", `"f05.e2"`)},
		{name: "enum-as-object-with-empty-value", alt: h("", `{"type":"f05.e3","value":{}}`), canon: h("", `"f05.e3"`)},
		{name: "unknown-variant", alt: h(`{"type":"f05.u9"}`, ""), reject: true},
		{name: "union-unknown-key", alt: h(`{"type":"f05.u3","x":1}`, ""), reject: true},
		{name: "union-duplicate-type", alt: h(`{"type":"f05.u3","type":"f05.u3"}`, ""), reject: true},
	}
	c := cases[verifChoice(len(cases))]
	verifRunAlt(func() interface{} { return &F05Holder{} }, c)
}
