//go:build verif

package internal

func init() { verifRegister("VerifC06x_f03", VerifC06x_f03) }

// outer masks and nat-sized arrays: a field under an OUTER mask whose bit is 0 is an error (it cannot be inferred);
// an array whose length differs from its size parameter is an error.
func VerifC06x_f03() {
	n := verifSmallI32()
	N := verifI32JSON(n)
	cases := []verifAltCase{
		{name: "array-length-equals-size-parameter", alt: `{"n":2,"inner":{"c":["` + N + `",` + N + `]}}`, canon: `{"n":2,"inner":{"c":[` + N + `,` + N + `]}}`},
		{name: "array-shorter-than-size-parameter", alt: `{"n":2,"inner":{"c":[` + N + `]}}`, reject: true},
		{name: "array-longer-than-size-parameter", alt: `{"n":1,"inner":{"c":[` + N + `,` + N + `]}}`, reject: true},
		{name: "field-under-set-outer-mask-bit", alt: `{"f":1,"inner":{"a":"5"}}`, canon: `{"f":1,"inner":{"a":5}}`},
		{name: "omitted-array-with-zero-size", alt: `{"f":1,"inner":{}}`, canon: `{"f":1}`},
	}
	c := cases[verifChoice(len(cases))]
	verifRunAlt(func() interface{} { return &F03Outer{} }, c)
}
