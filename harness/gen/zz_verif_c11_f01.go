//go:build verif

package internal

func init() {
	verifRegister("VerifC11_F01Scalars", VerifC11_F01Scalars)
	verifRegister("VerifC11_F01ScalarsAccept", VerifC11_F01ScalarsAccept)
}

func refF01Scalars(v *F01Scalars) []byte {
	var w []byte
	w = refU32(w, uint32(v.A))
	w = refU64(w, uint64(v.B))
	w = refU32(w, v.C)
	w = refU32(w, refF32(v.D))
	w = refU64(w, refF64(v.E))
	w = refString(w, v.S)
	return refBool(w, v.F)
}

func VerifC11_F01Scalars() {
	v := verifAny_F01Scalars(1)
	verifCover("value")
	verifC11TL1(&v, func() verifTL1 { return &F01Scalars{} }, refF01Scalars(&v), "f01.scalars")
	// boxed = tag + bare
	wb, err := v.WriteTL1BoxedGeneral(nil)
	verifAssert(err == nil && verifBytesEq(wb, append(refU32(nil, v.TLTag()), refF01Scalars(&v)...)), "boxed-is-tag-plus-bare")
}

// whatever the reader accepts is the reference encoding of what it decoded
func VerifC11_F01ScalarsAccept() {
	b := verifBytes(verifParam("N", 44))
	var v F01Scalars
	rest, err := v.ReadTL1(b)
	if err != nil {
		return
	}
	verifCover("accepted")
	n := len(b) - len(rest)
	verifAssert(verifBytesEq(refF01Scalars(&v), b[:n]), "accepted-input-is-the-reference-encoding:f01.scalars")
}
