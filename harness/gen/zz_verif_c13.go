//go:build verif

package internal

// C13: TL2 evolution and non-minimal encodings, on the generated code of schemas/p/p1_evolution.tl2 (old.* / new.* are two
// versions of the same types: new = old + appended fields / appended union variant).

func init() {
	verifRegister("VerifC13Reencode", VerifC13Reencode)
	verifRegister("VerifC13NewReadsOld", VerifC13NewReadsOld)
	verifRegister("VerifC13OldReadsNew", VerifC13OldReadsNew)
	verifRegister("VerifC13ReusedTarget", VerifC13ReusedTarget)
}

type verifPair struct {
	name     string
	oldObj   func() verifTL2
	newObj   func() verifTL2
	clearNew func(interface{}) // resets the fields appended by the new version
}

var verifPairs = []verifPair{
	{"point", func() verifTL2 { return &OldPoint{} }, func() verifTL2 { return &NewPoint{} }, func(x interface{}) { p := x.(*NewPoint); p.Z = 0; p.ClearLabel() }},
	{"nine", func() verifTL2 { return &OldNine{} }, func() verifTL2 { return &NewNine{} }, func(x interface{}) { p := x.(*NewNine); p.F8 = 0; p.F9 = ""; p.F10 = false }},
	{"box", func() verifTL2 { return &OldBox{} }, func() verifTL2 { return &NewBox{} }, nil},
}

func verifTL2Objs() []func() verifTL2 {
	var out []func() verifTL2
	for _, p := range verifPairs {
		out = append(out, p.oldObj, p.newObj)
	}
	return out
}

func verifHuge(n int) []byte {
	return []byte{0xFF, byte(n), byte(n >> 8), byte(n >> 16), byte(n >> 24), byte(n >> 32), byte(n >> 40), byte(n >> 48), byte(n >> 56)}
}

// VerifC13Reencode: non-minimal but admissible encodings of the TOP-LEVEL object decode to the same value as the
// minimal one: object size in huge form; empty object written as an explicit zero presence byte; unknown bytes after the
// last known field (size increased); and a declared size beyond the input is rejected.
func VerifC13Reencode() {
	idx := verifChoice(2 * len(verifPairs))
	mk := verifTL2Objs()[idx]
	multiBlock := verifPairs[idx/2].name == "nine" && idx%2 == 1 // new.nine has 10 fields = two presence blocks
	b := verifBytes(verifParam("N", 16))
	v := mk()
	if _, err := v.ReadTL2(b, nil); err != nil {
		return
	}
	w := v.WriteTL2(nil, nil) // minimal encoding of an arbitrary decodable value
	verifAssume(len(w) >= 1 && w[0] < 254) // top-level size in tiny form (objects up to 253 bytes)
	size := int(w[0])
	body := w[1:]
	verifAssert(size == len(body), "tiny-size-is-the-body-length")
	var alt []byte
	switch verifChoice(4) {
	case 0:
		verifCover("huge-size")
		alt = append(verifHuge(size), body...)
	case 1:
		verifCover("explicit-zero-mask")
		verifAssume(size == 0)
		alt = []byte{1, 0}
	case 2:
		verifCover("trailing-unknown-bytes")
		verifAssume(size > 0)
		k := 1 + verifChoice(3)
		var junk []byte
		if multiBlock {
			junk = make([]byte, k) // more than one presence block: the first appended byte is the next (explicitly zero) presence byte
		} else {
			junk = verifBytesN(k) // arbitrary bytes after the last known field = fields of a newer schema version
		}
		alt = append([]byte{byte(size + k)}, body...)
		alt = append(alt, junk...)
	case 3:
		verifCover("size-beyond-input")
		verifAssume(size > 0)
		cut := w[:len(w)-1]
		u := mk()
		_, err := u.ReadTL2(cut, nil)
		verifAssert(err != nil, "declared-size-beyond-input-is-rejected")
		return
	}
	u := mk()
	rest, err := u.ReadTL2(alt, nil)
	verifAssert(err == nil, "non-minimal-encoding-accepted")
	if err != nil {
		return
	}
	verifAssert(len(rest) == 0, "non-minimal-encoding-consumed")
	verifAssert(verifBytesEq(u.WriteTL2(nil, nil), w), "non-minimal-encoding-decodes-to-the-same-value")
}

// VerifC13NewReadsOld: bytes written by the old schema decode under the new one, appended fields empty, and the value
// written back under the new schema is the same bytes (the new writer elides empty appended fields).
func VerifC13NewReadsOld() {
	p := verifPairs[verifChoice(len(verifPairs))]
	b := verifBytes(verifParam("N", 16))
	o := p.oldObj()
	if _, err := o.ReadTL2(b, nil); err != nil {
		return
	}
	verifCover("old-value")
	w := o.WriteTL2(nil, nil)
	n := p.newObj()
	rest, err := n.ReadTL2(w, nil)
	verifAssert(err == nil && len(rest) == 0, "new-reader-accepts-old-bytes")
	if err != nil {
		return
	}
	verifAssert(verifBytesEq(n.WriteTL2(nil, nil), w), "missing-trailing-fields-are-empty")
}

// VerifC13OldReadsNew: bytes written by the new schema (arbitrary appended fields) decode under the old one; the old value
// re-encoded and read by the new schema equals the new value with the appended fields cleared.
func VerifC13OldReadsNew() {
	p := verifPairs[verifChoice(len(verifPairs))]
	b := verifBytes(verifParam("N", 16))
	n := p.newObj()
	if _, err := n.ReadTL2(b, nil); err != nil {
		return
	}
	verifCover("new-value")
	w := n.WriteTL2(nil, nil)
	o := p.oldObj()
	rest, err := o.ReadTL2(w, nil)
	if p.name == "box" {
		// box contains the union new.res: values using the appended variant `gone` are unknown to the old schema (rejected),
		// all others must be accepted
		if err != nil {
			verifCover("appended-variant-rejected")
			return
		}
	}
	verifAssert(err == nil && len(rest) == 0, "old-reader-skips-appended-fields")
	if err != nil || p.clearNew == nil {
		return
	}
	ow := o.WriteTL2(nil, nil)
	n2 := p.newObj()
	_, err = n2.ReadTL2(ow, nil)
	verifAssert(err == nil, "old-bytes-decode-under-new-schema")
	p.clearNew(n)
	verifAssert(verifBytesEq(n2.WriteTL2(nil, nil), n.WriteTL2(nil, nil)), "old-fields-survive-appended-fields-dropped")
}

// VerifC13ReusedTarget: "fields missing at the end of the body are empty" also when the target object held data before: old bytes
// (shorter body, fewer presence blocks) decoded into a NEW-schema object that was previously filled from other bytes give the same
// value as decoding them into a fresh object.
func VerifC13ReusedTarget() {
	p := verifPairs[verifChoice(len(verifPairs))]
	N := verifParam("NR", 8)
	o := p.oldObj()
	if _, err := o.ReadTL2(verifBytes(N), nil); err != nil {
		return
	}
	w := o.WriteTL2(nil, nil)
	dirty := p.newObj()
	if _, err := dirty.ReadTL2(verifBytes(verifParam("ND", 10)), nil); err != nil {
		return
	}
	verifCover("reused")
	fresh := p.newObj()
	_, e1 := dirty.ReadTL2(w, nil)
	_, e2 := fresh.ReadTL2(w, nil)
	verifAssert(e1 == nil && e2 == nil, "old-bytes-accepted-by-reused-and-fresh-target")
	if e1 == nil && e2 == nil {
		verifAssert(verifBytesEq(dirty.WriteTL2(nil, nil), fresh.WriteTL2(nil, nil)), "missing-trailing-fields-are-empty-in-a-reused-target")
	}
}
