//go:build verif

package basictl

import (
	"errors"
	"io"
	"math"
)

func init() {
	verifRegister("VerifC33PrimReadAny", VerifC33PrimReadAny)
	verifRegister("VerifC33PrimRoundTrip", VerifC33PrimRoundTrip)
	verifRegister("VerifC33ReadBool", VerifC33ReadBool)
	verifRegister("VerifC33NatReadExactTag", VerifC33NatReadExactTag)
	verifRegister("VerifC33TL2Size", VerifC33TL2Size)
	verifRegister("VerifC33TL2ParseSizeAny", VerifC33TL2ParseSizeAny)
	verifRegister("VerifC33StringReadTL2Any", VerifC33StringReadTL2Any)
	verifRegister("VerifC33Skip", VerifC33Skip)
	verifRegister("VerifC33StringRoundTrip", VerifC33StringRoundTrip)
	verifRegister("VerifC33StringBytesRoundTrip", VerifC33StringBytesRoundTrip)
	verifRegister("VerifC33StringTL2RoundTrip", VerifC33StringTL2RoundTrip)
	verifRegister("VerifC33BitVector", VerifC33BitVector)
	verifRegister("VerifC33StringReadBytesAny", VerifC33StringReadBytesAny)
}

func verifLE32(r []byte) uint32 {
	return uint32(r[0]) | uint32(r[1])<<8 | uint32(r[2])<<16 | uint32(r[3])<<24
}

func verifLE64(r []byte) uint64 {
	return uint64(verifLE32(r)) | uint64(verifLE32(r[4:]))<<32
}

// fixed-width readers on an arbitrary buffer of any length
func VerifC33PrimReadAny() {
	r := verifBytes(1 << 40)
	switch verifChoice(6) {
	case 0:
		var v int32
		rest, err := IntRead(r, &v)
		if err != nil {
			verifCover("int-eof")
			verifAssert(len(r) < 4 && errors.Is(err, io.ErrUnexpectedEOF), "int-eof-iff-short")
			return
		}
		verifCover("int-ok")
		verifAssert(len(rest) == len(r)-4 && uint32(v) == verifLE32(r), "int-le")
	case 1:
		var v int64
		rest, err := LongRead(r, &v)
		if err != nil {
			verifCover("long-eof")
			verifAssert(len(r) < 8 && errors.Is(err, io.ErrUnexpectedEOF), "long-eof-iff-short")
			return
		}
		verifCover("long-ok")
		verifAssert(len(rest) == len(r)-8 && uint64(v) == verifLE64(r), "long-le")
	case 2:
		var v float32
		rest, err := FloatRead(r, &v)
		if err != nil {
			verifCover("float-eof")
			verifAssert(len(r) < 4 && errors.Is(err, io.ErrUnexpectedEOF), "float-eof-iff-short")
			return
		}
		verifCover("float-ok")
		verifAssert(len(rest) == len(r)-4 && math.Float32bits(v) == verifLE32(r), "float-bits")
	case 3:
		var v float64
		rest, err := DoubleRead(r, &v)
		if err != nil {
			verifCover("double-eof")
			verifAssert(len(r) < 8 && errors.Is(err, io.ErrUnexpectedEOF), "double-eof-iff-short")
			return
		}
		verifCover("double-ok")
		verifAssert(len(rest) == len(r)-8 && math.Float64bits(v) == verifLE64(r), "double-bits")
	case 4:
		var v uint64
		rest, err := Uint64Read(r, &v)
		if err != nil {
			verifCover("u64-eof")
			verifAssert(len(r) < 8 && errors.Is(err, io.ErrUnexpectedEOF), "u64-eof-iff-short")
			return
		}
		verifCover("u64-ok")
		verifAssert(len(rest) == len(r)-8 && v == verifLE64(r), "u64-le")
	case 5:
		var v byte
		rest, err := ByteRead(r, &v)
		if err != nil {
			verifCover("byte-eof")
			verifAssert(len(r) == 0 && errors.Is(err, io.ErrUnexpectedEOF), "byte-eof-iff-empty")
			return
		}
		verifCover("byte-ok")
		verifAssert(len(rest) == len(r)-1 && v == r[0], "byte-value")
	}
}

func VerifC33PrimRoundTrip() {
	x := verifU64()
	{
		w := IntWrite(nil, int32(x))
		var v int32
		rest, err := IntRead(w, &v)
		verifAssert(err == nil && len(rest) == 0 && len(w) == 4 && v == int32(x), "int")
	}
	{
		w := LongWrite(nil, int64(x))
		var v int64
		rest, err := LongRead(w, &v)
		verifAssert(err == nil && len(rest) == 0 && len(w) == 8 && v == int64(x), "long")
		verifAssert(verifLE64(w) == x, "long-le")
	}
	{
		f := math.Float32frombits(uint32(x))
		w := FloatWrite(nil, f)
		var v float32
		rest, err := FloatRead(w, &v)
		verifAssert(err == nil && len(rest) == 0 && len(w) == 4 && math.Float32bits(v) == uint32(x), "float-bit-exact")
	}
	{
		f := math.Float64frombits(x)
		w := DoubleWrite(nil, f)
		var v float64
		rest, err := DoubleRead(w, &v)
		verifAssert(err == nil && len(rest) == 0 && len(w) == 8 && math.Float64bits(v) == x, "double-bit-exact")
	}
	{
		w := Uint64Write(nil, x)
		var v uint64
		rest, err := Uint64Read(w, &v)
		verifAssert(err == nil && len(rest) == 0 && len(w) == 8 && v == x, "u64")
	}
	{
		w := ByteWrite(nil, byte(x))
		var v byte
		rest, err := ByteRead(w, &v)
		verifAssert(err == nil && len(rest) == 0 && len(w) == 1 && v == byte(x), "byte")
	}
	verifCover("done")
}

// ReadBool accepts exactly the two tags.
func VerifC33ReadBool() {
	r := verifBytes(1 << 40)
	ft, tt := verifU32(), verifU32()
	verifAssume(ft != tt)
	v := verifBool()
	v0 := v
	rest, err := ReadBool(r, &v, ft, tt)
	if err != nil {
		verifCover("err")
		if len(r) < 4 {
			verifCover("eof")
			verifAssert(errors.Is(err, io.ErrUnexpectedEOF), "short-is-eof")
		} else {
			verifCover("bad-tag")
			tag := verifLE32(r)
			verifAssert(tag != ft && tag != tt, "error-only-for-foreign-tag")
		}
		verifAssert(v == v0, "value-untouched-on-error")
		return
	}
	verifCover("ok")
	tag := verifLE32(r)
	verifAssert(len(rest) == len(r)-4, "consumed-4")
	verifAssert((tag == tt && v) || (tag == ft && !v), "tag-decides-value")
}

func VerifC33NatReadExactTag() {
	r := verifBytes(1 << 40)
	want := verifU32()
	rest, err := NatReadExactTag(r, want)
	if err != nil {
		verifCover("err")
		verifAssert(len(r) < 4 || verifLE32(r) != want, "error-iff-short-or-different")
		if len(r) < 4 {
			verifAssert(errors.Is(err, io.ErrUnexpectedEOF), "short-is-eof")
		}
		return
	}
	verifCover("ok")
	verifAssert(len(r) >= 4 && verifLE32(r) == want && len(rest) == len(r)-4, "ok-iff-tag-matches")
}

// TL2 size: three writers agree with the documented forms for every l in [0, 2^63)
func VerifC33TL2Size() {
	l := verifInt()
	verifAssume(l >= 0)
	w := TL2WriteSize(nil, l)
	n := TL2CalculateSize(l)
	var buf [9]byte
	m := TL2PutSize(buf[:], l)
	verifAssert(len(w) == n && m == n, "three-size-functions-agree")
	switch {
	case l < 254:
		verifCover("tiny")
		verifAssert(n == 1 && int(w[0]) == l, "tiny-form")
	case l < 254+65536:
		verifCover("medium")
		verifAssert(n == 3 && w[0] == 254 && int(w[1])|int(w[2])<<8 == l-254, "medium-form")
	default:
		verifCover("huge")
		verifAssert(n == 9 && w[0] == 255 && verifLE64(w[1:]) == uint64(l), "huge-form")
	}
	for i := 0; i < 9; i++ {
		if i < n {
			verifAssert(buf[i] == w[i], "put-equals-write")
		}
	}
	rest, got, err := TL2ParseSize(w)
	verifAssert(err == nil && got == l && len(rest) == 0, "parse-inverts-write")
}

func VerifC33TL2ParseSizeAny() {
	r := verifBytes(1 << 40)
	rest, l, err := TL2ParseSize(r)
	if err != nil {
		verifCover("err")
		if len(r) == 0 || (r[0] == 254 && len(r) < 3) || (r[0] == 255 && len(r) < 9) {
			verifCover("eof")
			verifAssert(errors.Is(err, io.ErrUnexpectedEOF), "short-is-eof")
		} else {
			verifCover("too-big")
			verifAssert(r[0] == 255 && verifLE64(r[1:]) > math.MaxInt64, "only-over-maxint-rejected")
		}
		return
	}
	verifCover("ok")
	switch {
	case r[0] < 254:
		verifAssert(l == int(r[0]) && len(rest) == len(r)-1, "tiny")
	case r[0] == 254:
		verifAssert(l == 254+(int(r[1])|int(r[2])<<8) && len(rest) == len(r)-3, "medium")
	default:
		verifCover("ok-huge")
		verifAssert(uint64(l) == verifLE64(r[1:]) && l >= 0 && len(rest) == len(r)-9, "huge-any-value-accepted")
	}
}

func VerifC33StringReadTL2Any() {
	r := verifBytes(1 << 62)
	var s string
	rest, err := StringReadTL2(r, &s)
	r2, l, err2 := TL2ParseSize(r)
	if err != nil {
		verifCover("err")
		verifAssert(err2 != nil || len(r2) < l, "error-iff-size-bad-or-truncated")
		if err2 == nil {
			verifAssert(errors.Is(err, io.ErrUnexpectedEOF), "truncated-is-eof")
		}
		return
	}
	verifCover("ok")
	verifAssert(err2 == nil && len(s) == l && len(rest) == len(r2)-l, "consumes-size-plus-content")
	hdr := len(r) - len(r2)
	i := verifInt()
	verifAssume(i >= 0 && i < l && i < 16)
	verifAssert(s[i] == r[hdr+i], "content-is-view")
}

func VerifC33Skip() {
	r := verifBytes(1 << 62)
	if verifBool() {
		rest, err := SkipSizedValue(r)
		r2, l, err2 := TL2ParseSize(r)
		if err != nil {
			verifCover("sized-err")
			verifAssert(err2 != nil || len(r2) < l, "sized-error-iff-bad")
			return
		}
		verifCover("sized-ok")
		verifAssert(err2 == nil && len(rest) == len(r2)-l, "sized-skips-exactly")
		return
	}
	l := verifInt()
	rest, err := SkipFixedSizedValue(r, l)
	if err != nil {
		verifCover("fixed-err")
		verifAssert(l < 0 || len(r) < l, "fixed-error-iff-bad")
		return
	}
	verifCover("fixed-ok")
	verifAssert(l >= 0 && len(rest) == len(r)-l, "fixed-skips-exactly")
}

// content round trips (content is copied: bounded length)
func VerifC33StringRoundTrip() {
	L := verifParam("strlen", 8)
	s := verifString(L)
	w := StringWrite(nil, s)
	verifAssert(len(w)%4 == 0, "aligned")
	var got string
	rest, err := StringRead(w, &got)
	verifAssert(err == nil, "read-ok")
	verifAssert(len(rest) == 0, "rest-empty")
	verifAssert(verifStrEq(got, s), "same-content")
	verifCover("done")
	if len(s) == 254 {
		verifCover("len-254-medium-form")
	}
}

func VerifC33StringBytesRoundTrip() {
	L := verifParam("strlen", 8)
	s := verifBytes(L)
	w := StringWriteBytes(nil, s)
	w2 := StringWrite(nil, string(s))
	verifAssert(verifBytesEq(w, w2), "bytes-writer-equals-string-writer")
	// dirty destination with some capacity
	dc := verifLen(3)
	dst := make([]byte, dc, dc+verifLen(2))
	for i := range dst {
		dst[i] = 0xAA
	}
	rest, err := StringReadBytes(w, &dst)
	verifAssert(err == nil, "read-ok")
	verifAssert(len(rest) == 0, "rest-empty")
	verifAssert(verifBytesEq(dst, s), "same-content")
	verifCover("done")
}

func VerifC33StringTL2RoundTrip() {
	L := verifParam("strlen", 8)
	s := verifString(L)
	w := StringWriteTL2(nil, s)
	verifAssert(len(w) == len(s)+TL2CalculateSize(len(s)), "no-padding")
	wb := StringWriteTL2Bytes(nil, []byte(s))
	verifAssert(verifBytesEq(w, wb), "bytes-writer-equals-string-writer")
	var got string
	rest, err := StringReadTL2(w, &got)
	verifAssert(err == nil && len(rest) == 0, "read-ok")
	verifAssert(verifStrEq(got, s), "same-content")
	dst := make([]byte, verifLen(2))
	rest, err = StringReadTL2Bytes(w, &dst)
	verifAssert(err == nil && len(rest) == 0, "readbytes-ok")
	verifAssert(verifBytesEq(dst, []byte(s)), "readbytes-same-content")
	verifCover("done")
}

func VerifC33BitVector() {
	Lb := verifParam("bits", 17)
	n := verifLen(Lb)
	vec := make([]bool, n)
	for i := range vec {
		vec[i] = verifBool()
	}
	w := VectorBitContentWriteTL2(nil, vec)
	verifAssert(len(w) == (n+7)/8, "ceil-n-over-8-bytes")
	for i := 0; i < n; i++ {
		verifAssert((w[i/8]>>(uint(i)%8))&1 == 1 == vec[i], "bit-i-of-byte-i/8")
	}
	if n%8 != 0 {
		verifAssert(w[len(w)-1]>>(uint(n)%8) == 0, "high-bits-zero")
	}
	got := make([]bool, n)
	for i := range got {
		got[i] = verifBool() // dirty
	}
	rest, err := VectorBitContentReadTL2(w, got)
	verifAssert(err == nil && len(rest) == 0, "read-ok")
	for i := 0; i < n; i++ {
		verifAssert(got[i] == vec[i], "read-inverts-write")
	}
	// truncated input
	if len(w) > 0 {
		k := verifChoice(len(w))
		_, err = VectorBitContentReadTL2(w[:k], got)
		verifAssert(err != nil && errors.Is(err, io.ErrUnexpectedEOF), "truncated-is-eof")
	}
	verifCover("done")
}

// StringReadBytes on arbitrary (bounded) buffers agrees with StringRead
func VerifC33StringReadBytesAny() {
	N := verifParam("anybytes", 12)
	r := verifBytes(N)
	var s string
	rest1, err1 := StringRead(r, &s)
	dst := make([]byte, verifLen(2))
	rest2, err2 := StringReadBytes(r, &dst)
	verifAssert((err1 == nil) == (err2 == nil), "same-acceptance")
	if err1 != nil {
		verifCover("err")
		verifAssert(errors.Is(err1, io.ErrUnexpectedEOF) == errors.Is(err2, io.ErrUnexpectedEOF), "same-eof-class")
		return
	}
	verifCover("ok")
	verifAssert(len(rest1) == len(rest2), "same-consumed")
	verifAssert(verifBytesEq(dst, []byte(s)), "same-content")
}
