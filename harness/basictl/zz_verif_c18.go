//go:build verif

package basictl

// C18, termination argument of generated FillRandom (pkg/basictl RandGenerator): every generated FillRandom brackets each
// nested container and each recursive field in IncreaseDepth() ... DecreaseDepth(), and RandomUint / RandomSize /
// RandomFieldMask return 0 WITHOUT drawing once the depth limit is reached, which is what ends the recursion of recursive
// types. That argument needs the generator's depth to follow the true nesting level: for ANY well-nested sequence of
// IncreaseDepth/DecreaseDepth calls (<= K calls), any maxDepth the constructor can pick and any outputs of the Rand source,
// whenever the true nesting level is >= maxDepth a size and a field mask come out as 0 and nothing is drawn.

func init() { verifRegister("VerifC18Depth", VerifC18Depth) }

type verifC18Rand struct{ n int }

func (r *verifC18Rand) Uint32() uint32       { r.n++; return verifU32() }
func (r *verifC18Rand) Int31() int32         { r.n++; return int32(verifU32() >> 1) }
func (r *verifC18Rand) Int63() int64         { r.n++; return int64(verifU64() >> 1) }
func (r *verifC18Rand) NormFloat64() float64 { r.n++; return 0 }

func VerifC18Depth() {
	src := &verifC18Rand{}
	rg := NewRandGenerator(src)
	verifAssume(rg.maxDepth == uint32(2+verifChoice(4))) // all values the constructor can produce (2..5), one per path
	K := verifParam("K", 12)
	level := 0
	for i := 0; i < K; i++ {
		if verifChoice(2) == 0 {
			rg.IncreaseDepth()
			level++
		} else {
			if level == 0 {
				return
			}
			rg.DecreaseDepth()
			level--
		}
		if uint32(level) >= rg.maxDepth {
			verifCover("at-or-beyond-max-depth")
			before := src.n
			s := RandomSize(rg)
			m := RandomFieldMask(rg, ^uint32(0))
			verifAssert(s == 0 && m == 0 && src.n == before, "no-generation-at-or-beyond-max-depth")
		}
	}
}
