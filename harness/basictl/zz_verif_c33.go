//go:build verif

package basictl

import (
	"errors"
	"io"
)

func init() {
	verifRegister("VerifC33NatRoundTrip", VerifC33NatRoundTrip)
	verifRegister("VerifC33NatReadAny", VerifC33NatReadAny)
	verifRegister("VerifC33StringWriteLen", VerifC33StringWriteLen)
	verifRegister("VerifC33StringReadAny", VerifC33StringReadAny)
}

// nat: write then read gives the same value, 4 bytes, LE.
func VerifC33NatRoundTrip() {
	v := verifU32()
	w := NatWrite(nil, v)
	verifAssert(len(w) == 4, "len4")
	verifAssert(w[0] == byte(v) && w[1] == byte(v>>8) && w[2] == byte(v>>16) && w[3] == byte(v>>24), "little-endian")
	var got uint32
	rest, err := NatRead(w, &got)
	verifAssert(err == nil, "read-ok")
	verifAssert(len(rest) == 0, "rest-empty")
	verifAssert(got == v, "same-value")
	verifCover("done")
}

// NatRead on an arbitrary buffer of any length.
func VerifC33NatReadAny() {
	r := verifBytes(1 << 40)
	var got uint32
	rest, err := NatRead(r, &got)
	if err != nil {
		verifCover("eof")
		verifAssert(len(r) < 4, "error-only-when-short")
		verifAssert(errors.Is(err, io.ErrUnexpectedEOF), "error-is-eof")
		return
	}
	verifCover("ok")
	verifAssert(len(r) >= 4, "ok-needs-4")
	verifAssert(len(rest) == len(r)-4, "consumed-4")
	want := uint32(r[0]) | uint32(r[1])<<8 | uint32(r[2])<<16 | uint32(r[3])<<24
	verifAssert(got == want, "le-value")
}

// StringWriteLen for every length 0..2^56-1.
func VerifC33StringWriteLen() {
	le := verifInt()
	verifAssume(le >= 0 && le <= 1<<56-1)
	w, p := StringWriteLen(nil, le)
	var hdr int
	switch {
	case le <= 253:
		verifCover("tiny")
		hdr = 1
		verifAssert(len(w) == 1 && int(w[0]) == le, "tiny-header")
	case le <= 1<<24-1:
		verifCover("medium")
		hdr = 4
		verifAssert(len(w) == 4 && w[0] == 254 && int(w[1])|int(w[2])<<8|int(w[3])<<16 == le, "medium-header")
	default:
		verifCover("huge")
		hdr = 8
		verifAssert(len(w) == 8 && w[0] == 255, "huge-marker")
		got := int(w[1]) | int(w[2])<<8 | int(w[3])<<16 | int(w[4])<<24 | int(w[5])<<32 | int(w[6])<<40 | int(w[7])<<48
		verifAssert(got == le, "huge-header")
	}
	// padding as written by StringWritePadding
	pad := len(StringWritePadding(nil, p))
	verifAssert(pad >= 0 && pad <= 3, "pad-range")
	verifAssert((hdr+le+pad)%4 == 0, "aligned")
}

// StringRead on an arbitrary buffer of any length: accepted input is canonical.
func VerifC33StringReadAny() {
	r := verifBytes(1 << 57)
	var s string
	rest, err := StringRead(r, &s)
	if err != nil {
		verifCover("err")
		return
	}
	verifCover("ok")
	l := len(s)
	consumed := len(r) - len(rest)
	var hdr int
	switch {
	case r[0] <= 253:
		verifCover("ok-tiny")
		hdr = 1
		verifAssert(int(r[0]) == l, "tiny-len")
	case r[0] == 254:
		verifCover("ok-medium")
		hdr = 4
		verifAssert(l > 253 && l <= 1<<24-1, "medium-minimal")
	default:
		verifCover("ok-huge")
		hdr = 8
		verifAssert(l > 1<<24-1 && l <= 1<<56-1, "huge-minimal")
	}
	verifAssert(consumed%4 == 0, "consumed-aligned")
	verifAssert(consumed >= hdr+l && consumed <= hdr+l+3, "consumed-is-header+len+pad")
	// padding bytes are zero
	pad := consumed - hdr - l
	for k := 0; k < 3; k++ {
		if k < pad {
			verifAssert(r[hdr+l+k] == 0, "padding-zero")
		}
	}
}
