//go:build verif

package pure

import (
	"github.com/VKCOM/tl/internal/tlast"
)

func init() {
	verifRegister("VerifC24Kernel", VerifC24Kernel)
}

// VerifC24Kernel: (*Kernel).checkTagCollisions() == nil <=> all TL1 tags non-zero, and TL1 tags and non-zero TL2 magics pairwise distinct.
func VerifC24Kernel() {
	tl0, _ := tlast.ParseTLFile("a = A;", "x.tl", tlast.LexerOptions{LexerLanguage: tlast.TL1})
	pr := tl0.CS[0].C.PR
	n := verifLen(verifParam("combs", 3))
	m := verifLen(verifParam("tl2", 2))
	files := verifChoice(2) + 1 // spread the TL1 combinators over 1 or 2 files
	k := &Kernel{}
	var ids []uint32
	var zeroOK []bool
	tls := make([]*tlast.TL, files)
	for i := range tls {
		tls[i] = &tlast.TL{}
	}
	for i := 0; i < n; i++ {
		id := verifU32()
		c := &tlast.Combinator{}
		c.Construct.ID = id
		c.IsFunction = verifBool()
		c.Construct.Name.Name = "c" + string(rune('a'+i))
		c.Construct.IDPR, c.Construct.NamePR, c.PR = pr, pr, pr
		f := tls[i%files]
		f.CS = append(f.CS, tlast.CombinatorOrSection{C: c})
		ids = append(ids, id)
		zeroOK = append(zeroOK, false)
	}
	k.filesTL1 = tls
	for i := 0; i < m; i++ {
		id := verifU32()
		var c tlast.TL2Combinator
		c.IsFunction = verifBool()
		c.PR = pr
		if c.IsFunction {
			c.FuncDecl.Magic = id
			c.FuncDecl.PRID = pr
			c.FuncDecl.Name.Name = "f" + string(rune('a'+i))
			c.TypeDecl.Magic = verifU32() // irrelevant for a function
		} else {
			c.TypeDecl.Magic = id
			c.TypeDecl.PRID = pr
			c.TypeDecl.Name.Name = "t" + string(rune('a'+i))
			c.FuncDecl.Magic = verifU32() // irrelevant for a type
		}
		k.filesTL2 = append(k.filesTL2, c)
		ids = append(ids, id)
		zeroOK = append(zeroOK, true)
	}
	err := k.checkTagCollisions()
	ok := true
	for i := range ids {
		if !zeroOK[i] {
			ok = verifAnd(ok, ids[i] != 0)
		}
		for j := 0; j < i; j++ {
			// zero TL2 magics mean "no magic" and collide with nothing
			ok = verifAnd(ok, verifOr(ids[i] != ids[j], verifAnd(zeroOK[i], ids[i] == 0)))
		}
	}
	if err == nil {
		verifCover("accepted")
	} else {
		verifCover("rejected")
	}
	verifAssert((err == nil) == ok, "accepted-iff-tags-nonzero-and-distinct")
}

func init() { verifRegister("VerifC24Compile", VerifC24Compile) }

// VerifC24Compile: the whole Kernel.Compile on a small schema whose constructor tags are symbolic: it accepts the schema
// iff the tags are non-zero and pairwise distinct (so the checker is not only correct but actually consulted).
func VerifC24Compile() {
	text := "int#a8509bda ? = Int;\na.one x:int = a.U;\na.two y:int = a.U;\na.solo z:int = a.Solo;\n---functions---\n@read a.get q:int = a.U;\n"
	tl, err := tlast.ParseTLFile(text, "s.tl", tlast.LexerOptions{AllowDirty: true})
	if err != nil {
		panic("harness schema: " + err.Error())
	}
	var ids []uint32
	for _, c := range tl.Combinators() {
		if c.Builtin {
			ids = append(ids, c.Construct.ID)
			continue
		}
		c.Construct.ID = verifU32()
		c.Construct.IDExplicit = true
		ids = append(ids, c.Construct.ID)
	}
	k := NewKernel(&OptionsKernel{TypesWhiteList: "*", ErrorWriter: verifDiscardW{}})
	k.filesTL1 = append(k.filesTL1, tl)
	err = k.Compile()
	ok := true
	for i := range ids {
		ok = verifAnd(ok, ids[i] != 0)
		for j := 0; j < i; j++ {
			ok = verifAnd(ok, ids[i] != ids[j])
		}
	}
	if err == nil {
		verifCover("compiled")
	} else {
		verifCover("rejected")
	}
	verifAssert(verifImplies(!ok, err != nil), "colliding-or-zero-tags-rejected-by-compile")
	verifAssert(verifImplies(ok, err == nil), "distinct-nonzero-tags-accepted-by-compile")
}

type verifDiscardW struct{}

func (verifDiscardW) Write(p []byte) (int, error) { return len(p), nil }
