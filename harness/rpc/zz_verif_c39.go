//go:build verif

package rpc

import (
	"context"
	"time"

	"github.com/VKCOM/tl/internal/vkgo/pkg/semaphore"
)

func init() {
	verifRegister("VerifC39Pool", VerifC39Pool)
	verifRegister("VerifC39PoolStep", VerifC39PoolStep)
	verifRegister("VerifC39Memory", VerifC39Memory)
}

type verifCtx39 struct {
	done chan struct{}
	err  error
}

func (c *verifCtx39) Deadline() (time.Time, bool) { return time.Time{}, false }
func (c *verifCtx39) Done() <-chan struct{}       { return c.done }
func (c *verifCtx39) Err() error                  { return c.err }
func (c *verifCtx39) Value(any) any               { return nil }

func verifPoolInv(t *workerPool, id string) {
	verifAssert(len(t.free) >= 0 && len(t.free) <= t.created, id+"-free-within-created")
	verifAssert(t.created <= t.create, id+"-created-within-limit")
	verifAssert(t.created >= 0, id+"-created-non-negative")
}

// VerifC39Pool: G request goroutines compete for `create` workers; the number of handlers running at once (workers handed
// out and not yet returned) never exceeds the limit; excess requests wait (they are blocked at quiescence, not admitted).
func VerifC39Pool() {
	create := verifChoice(verifParam("maxWorkers", 2)) + 1
	G := verifParam("G", 3)
	pool := workerPoolNew(create, nil)
	sem := semaphore.NewWeighted(1 << 30)
	running := 0
	finished := 0
	for i := 0; i < G; i++ {
		go func() {
			w, ok := pool.Get(sem)
			if !ok {
				return
			}
			running++
			verifAssert(running <= create, "handlers-running-within-worker-limit")
			verifPoolInv(pool, "busy")
			if w == nil {
				w = &worker{workerPool: pool, ch: make(chan workerWork, 1)}
			}
			verifYield() // the handler runs; others may be scheduled meanwhile
			running--
			finished++
			pool.Put(w)
		}()
	}
	verifSettle()
	verifCover("settled")
	verifAssert(finished == G, "every-request-eventually-served")
	verifAssert(running == 0, "no-handler-left-running")
	verifPoolInv(pool, "end")
	cur, total := pool.Created()
	verifAssert(cur <= total && total == create, "created-report-consistent")
}

// VerifC39PoolStep: one operation from an ARBITRARY valid pool state (inductive step).
func VerifC39PoolStep() {
	create := verifChoice(3) + 1
	pool := workerPoolNew(create, nil)
	nfree := verifChoice(create + 1)
	busy := verifChoice(create - nfree + 1)
	pool.created = nfree + busy
	for i := 0; i < nfree; i++ {
		w := &worker{workerPool: pool, ch: make(chan workerWork, 1)}
		w.gcTime = time.Time{}.Add(time.Duration(verifU32()))
		pool.free = append(pool.free, w)
	}
	sem := semaphore.NewWeighted(1 << 30)
	verifPoolInv(pool, "pre")
	switch verifChoice(4) {
	case 0:
		verifCover("get")
		if nfree == 0 && busy == create {
			return // Get would block: the request waits (covered by VerifC39Pool)
		}
		w, ok := pool.Get(sem)
		verifAssert(ok, "get-succeeds-when-capacity-allows")
		if w == nil {
			verifAssert(nfree == 0, "new-worker-only-when-no-free-one")
			verifAssert(pool.created == nfree+busy+1, "creation-counted")
		} else {
			verifAssert(len(pool.free) == nfree-1 && pool.created == nfree+busy, "free-worker-reused")
		}
		verifAssert(pool.created-len(pool.free) == busy+1, "exactly-one-more-busy-worker")
	case 1:
		verifCover("put")
		if busy == 0 {
			return
		}
		w := &worker{workerPool: pool, ch: make(chan workerWork, 1)}
		pool.Put(w)
		verifAssert(pool.created-len(pool.free) == busy-1, "put-frees-exactly-one-worker")
	case 2:
		verifCover("gc")
		pool.GC(time.Time{}.Add(time.Duration(verifU32())))
		verifAssert(pool.created-len(pool.free) == busy, "gc-does-not-touch-busy-workers")
	case 3:
		verifCover("close")
		pool.Close()
		verifAssert(pool.created == busy && len(pool.free) == 0, "close-drops-only-free-workers")
		_, ok := pool.Get(sem)
		verifAssert(!ok, "closed-pool-hands-out-nothing")
	}
	verifPoolInv(pool, "post")
}

// VerifC39Memory: request memory accounting through the server's own acquire/release helpers never exceeds the limit.
func VerifC39Memory() {
	limit := int64(verifU32()%(1<<20)) + 1
	s := &Server{}
	s.opts.Logf = func(string, ...any) {}
	s.reqMemSem = semaphore.NewWeighted(limit)
	G := verifParam("G", 3)
	held := int64(0)
	served := 0
	for i := 0; i < G; i++ {
		taken := int(verifU32() % (1 << 20))
		ctx := &verifCtx39{done: make(chan struct{})}
		go func() {
			if int64(taken) > limit {
				return // such a request can never be admitted (it waits for ctx); not part of this harness
			}
			if err := s.acquireRequestSema(ctx, taken); err != nil {
				return
			}
			held += int64(taken)
			cur, size := s.reqMemSem.Observe()
			verifAssert(cur <= size, "accounted-request-memory-within-limit")
			// (no cur == held here: `held` is harness bookkeeping updated after acquire returns, another request may be admitted in between)
			verifYield()
			held -= int64(taken)
			served++
			s.releaseRequestBuf(taken, nil)
		}()
	}
	verifSettle()
	verifCover("settled")
	cur, _ := s.reqMemSem.Observe()
	verifAssert(cur == 0 && held == 0, "all-memory-released")
}

var _ = context.Canceled
