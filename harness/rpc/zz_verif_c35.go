//go:build verif

package rpc

import (
	"errors"
	"net"
	"time"

	"github.com/VKCOM/tl/pkg/rpc/internal/gen/tl"
)

func init() {
	verifRegister("VerifC35RoundTrip", VerifC35RoundTrip)
	verifRegister("VerifC35Corrupt", VerifC35Corrupt)
}

type verifAddr struct{}

func (verifAddr) Network() string { return "verif" }
func (verifAddr) String() string  { return "verif" }

// verifPipe: a one-directional byte stream; Write appends, Read returns an arbitrary non-empty chunk (every segmentation).
type verifPipe struct {
	buf    []byte
	pos    int
	closed bool
}

type verifConn struct {
	in, out *verifPipe
	chunked bool
	splits  int // remaining places where the stream may be cut short of what the reader asked for
}

func (c *verifConn) Read(p []byte) (int, error) {
	avail := len(c.in.buf) - c.in.pos
	if avail == 0 {
		return 0, errors.New("verif: stream exhausted")
	}
	n := avail
	if len(p) < n {
		n = len(p)
	}
	if c.chunked && n > 1 && c.splits > 0 {
		k := 1 + verifChoice(n) // any chunk size 1..n; a short chunk uses up one of the allowed split points
		if k < n {
			c.splits--
		}
		n = k
	}
	copy(p, c.in.buf[c.in.pos:c.in.pos+n])
	c.in.pos += n
	return n, nil
}
func (c *verifConn) Write(p []byte) (int, error) {
	c.out.buf = append(c.out.buf, p...)
	return len(p), nil
}
func (c *verifConn) Close() error                       { return nil }
func (c *verifConn) LocalAddr() net.Addr                { return verifAddr{} }
func (c *verifConn) RemoteAddr() net.Addr               { return verifAddr{} }
func (c *verifConn) SetDeadline(t time.Time) error      { return nil }
func (c *verifConn) SetReadDeadline(t time.Time) error  { return nil }
func (c *verifConn) SetWriteDeadline(t time.Time) error { return nil }

// a connection pair in the state right after the (unencrypted) handshake: sequence numbers at 0 on both sides
func verifPostHandshake(c *verifConn) *PacketConn {
	pc := NewPacketConn(c, 64, 64)
	pc.readSeqNum, pc.writeSeqNum = 0, 0
	return pc
}

func verifIsBuiltinPacket(t uint32) bool { return t == (tl.RpcPing{}).TLTag() || t == (tl.RpcPong{}).TLTag() }

// VerifC35RoundTrip: K packets with symbolic type and body written on one end are read on the other end identically and in
// order, over every segmentation of the byte stream with at most `splits` short reads at arbitrary places (unencrypted, protocol version 0, state right after the handshake).
func VerifC35RoundTrip() {
	K := verifParam("K", 2)
	wire := &verifPipe{}
	w := verifPostHandshake(&verifConn{in: &verifPipe{}, out: wire})
	types := make([]uint32, K)
	bodies := make([][]byte, K)
	for i := 0; i < K; i++ {
		types[i] = verifU32()
		verifAssume(!verifIsBuiltinPacket(types[i]))
		bodies[i] = verifBytesN(4 * verifLen(verifParam("words", 2)))
		err := w.WritePacket(types[i], bodies[i], 0)
		verifAssert(err == nil, "packet-written")
	}
	r := verifPostHandshake(&verifConn{in: wire, out: &verifPipe{}, chunked: true, splits: verifParam("splits", 2)})
	for i := 0; i < K; i++ {
		tip, body, err := r.ReadPacket(nil, 0)
		verifCover("packet-read")
		verifAssert(err == nil, "packet-read-back")
		if err != nil {
			return
		}
		verifAssert(tip == types[i], "packet-type-unchanged")
		verifAssert(verifBytesEq(body, bodies[i]), "packet-body-unchanged")
	}
	verifAssert(wire.pos == len(wire.buf), "stream-fully-consumed")
}

// VerifC35Corrupt: one byte of the stream replaced by a different value: the reader reports an error or — when the change
// is inside checksummed data — would need a CRC collision (excluded by the CRC contract: a single changed byte changes CRC-32).
func VerifC35Corrupt() {
	wire := &verifPipe{}
	w := verifPostHandshake(&verifConn{in: &verifPipe{}, out: wire})
	tp := verifU32()
	verifAssume(!verifIsBuiltinPacket(tp))
	body := verifBytesN(4 * verifLen(verifParam("words", 1)))
	if err := w.WritePacket(tp, body, 0); err != nil {
		return
	}
	// any byte except the 4-byte length field (a changed length moves the frame boundary: detection is then a matter of the
	// 2^-32 chance that body bytes equal a checksum — outside the claim)
	pos := 4 + verifChoice(len(wire.buf)-4)
	nb := verifU8()
	verifAssume(nb != wire.buf[pos])
	wire.buf[pos] = nb
	r := verifPostHandshake(&verifConn{in: wire, out: &verifPipe{}})
	tip, got, err := r.ReadPacket(nil, 0)
	verifCover("corrupted-stream-read")
	if err == nil {
		// an accepted packet must not differ from what was sent
		verifAssert(tip == tp && verifBytesEq(got, body), "corruption-never-yields-an-altered-packet")
	}
}
