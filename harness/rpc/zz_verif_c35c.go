//go:build verif

package rpc

// C35, encrypted layer: cryptoWriter -> byte stream -> cryptoReader, the buffering/alignment machinery under PacketConn, with
// encryption switched on in mid-stream exactly as the handshake does. AES-CBC is replaced by a stub cipher.BlockMode (block
// size 4) that is bijective and POSITION DEPENDENT: block number j is XORed with a key stream derived from j. Like CBC it
// garbles everything after any skipped, duplicated or misaligned byte, and it panics on partial blocks, so the obligations
// the framing code has towards the real cipher (whole blocks, each exactly once, in order) are all observable.

func init() { verifRegister("VerifC35Crypto", VerifC35Crypto) }

type verifXorMode struct{ key, ctr byte }

func (m *verifXorMode) BlockSize() int { return 4 }
func (m *verifXorMode) CryptBlocks(dst, src []byte) {
	if len(src)%4 != 0 || len(dst) < len(src) {
		panic("verif cipher: CryptBlocks on partial blocks")
	}
	for i := 0; i+4 <= len(src); i += 4 {
		for j := 0; j < 4; j++ {
			dst[i+j] = src[i+j] ^ (m.key + m.ctr*7 + byte(j)*3)
		}
		m.ctr++
	}
}

// VerifC35Crypto: any bytes written (a plaintext prefix, then - optionally - encryption turned on, then chunks with arbitrary
// flush points, padded to whole blocks as PacketConn does) are read back identically through Read calls of arbitrary sizes over
// every segmentation of the stream, for every small writer/reader buffer size (so that both the buffered and the direct-read
// branches of cryptoReader.Read are taken).
func VerifC35Crypto() {
	wire := &verifPipe{}
	// sizes come from small sets around the block size (4): below, equal, between multiples, a multiple, above
	pick := func(set []int, limit int) int {
		n := len(set)
		for n > 1 && set[n-1] > limit {
			n--
		}
		return set[verifChoice(n)]
	}
	wb := pick([]int{2, 7, 9}, verifParam("wbuf", 9))
	rb := pick([]int{1, 4, 6, 9}, verifParam("rbuf", 9))
	w := newCryptoWriter(&verifConn{in: &verifPipe{}, out: wire}, wb)
	r := newCryptoReader(&verifConn{in: wire, out: &verifPipe{}, chunked: true, splits: verifParam("csplits", 1)}, rb)
	maxRead := verifParam("maxread", 9)
	var sent []byte
	put := func(d []byte) {
		n, err := w.Write(d)
		verifAssert(err == nil && n == len(d), "bytes-written")
		sent = append(sent, d...)
	}
	var got []byte
	// Read sizes alternate between two arbitrary sizes of the set (PacketConn alternates fixed-size header reads and body reads)
	sizeA := pick([]int{1, 3, 4, 5, 8, 9}, maxRead)
	sizeB := pick([]int{1, 3, 4, 5, 8, 9}, maxRead)
	nread := 0
	readUpTo := func(total int) bool {
		for steps := 0; len(got) < total && steps < 4*total+4; steps++ {
			want := sizeA
			if nread%2 == 1 {
				want = sizeB
			}
			nread++
			if want > total-len(got) {
				want = total - len(got) // PacketConn never asks beyond the data it knows to be there
			}
			p := make([]byte, want)
			n, err := r.Read(p)
			got = append(got, p[:n]...)
			if err != nil {
				verifAssert(false, "read-error-on-an-intact-stream")
				return false
			}
		}
		return len(got) == total
	}
	n0 := pick([]int{0, 3, 1, 4}, verifParam("n0max", 4))
	put(verifBytesN(n0))
	verifAssert(w.Flush() == nil, "flushed")
	encrypted := verifBool()
	if encrypted {
		verifCover("encrypted")
		key := verifU8()
		w.encrypt(&verifXorMode{key: key})
		K := verifParam("CK", 2)
		for i := 0; i < K; i++ {
			put(verifBytesN(pick([]int{0, 1, 4, 5, 7}, verifParam("chunk", 6))))
			if verifBool() {
				verifAssert(w.Flush() == nil, "flushed")
			}
		}
		put(make([]byte, w.Padding(0)))
		verifAssert(w.Flush() == nil, "flushed")
		// the reader reads the plaintext prefix (possibly buffering encrypted bytes behind it), then switches encryption on
		if !readUpTo(n0) {
			verifAssert(false, "plaintext-prefix-read")
			return
		}
		r.encrypt(&verifXorMode{key: key})
	} else {
		verifCover("plain")
		K := verifParam("CK", 2)
		for i := 0; i < K; i++ {
			put(verifBytesN(pick([]int{0, 1, 4, 5, 7}, verifParam("chunk", 6))))
			if verifBool() {
				verifAssert(w.Flush() == nil, "flushed")
			}
		}
		verifAssert(w.Flush() == nil, "flushed")
	}
	verifAssert(len(wire.buf) == len(sent), "everything-written-reaches-the-stream")
	ok := readUpTo(len(sent))
	verifAssert(ok, "all-bytes-read-back")
	verifAssert(verifBytesEq(got, sent), "bytes-read-back-identical")
}
