//go:build verif

package rpc

import (
	"time"

	"github.com/VKCOM/tl/pkg/rpc/internal/gen/tl"
)

func init() {
	verifRegister("VerifC40Request", VerifC40Request)
	verifRegister("VerifC40Response", VerifC40Response)
}

func verifLE32(b []byte) uint32 {
	return uint32(b[0]) | uint32(b[1])<<8 | uint32(b[2])<<16 | uint32(b[3])<<24
}

// at most k bits of f are set (shape bound on the extras: every pair/triple of fields is explored, not all 2^n subsets)
func verifAtMostBits(f uint32, k int) bool {
	for i := 0; i < k; i++ {
		f &= f - 1
	}
	return f == 0
}

// an arbitrary request extra: anything the generated reader decodes from <= N bytes, with at most `bits` flag bits set
func verifAnyReqExtra() (e RequestExtra) {
	b := verifBytes(verifParam("extraN", 28))
	verifAssume(len(b) >= 4)
	verifAssume(verifAtMostBits(verifLE32(b), verifParam("bits", 2)))
	rest, err := e.ReadTL1(b)
	verifAssume(err == nil)
	verifAssume(len(rest) == 0)
	return e
}

func verifAnyRespExtra() (e ResponseExtra) {
	b := verifBytes(verifParam("extraN", 28))
	verifAssume(len(b) >= 4)
	verifAssume(verifAtMostBits(verifLE32(b), verifParam("bits", 2)))
	rest, err := e.ReadTL1(b)
	verifAssume(err == nil)
	verifAssume(len(rest) == 0)
	return e
}

func verifIsWrapperTag(t uint32) bool {
	return t == (tl.RpcDestActor{}).TLTag() || t == (tl.RpcDestFlags{}).TLTag() || t == (tl.RpcDestActorFlags{}).TLTag() || t == (tl.RpcTL2Marker{}).TLTag()
}

// VerifC40Request: client preparePacket -> wire order -> server ParseInvokeReq.
func VerifC40Request() {
	var req Request
	req.queryID = int64(verifU64())
	req.ActorID = int64(verifU64())
	req.BodyFormatTL2 = verifBool()
	req.Extra = verifAnyReqExtra()
	// the body starts with the function tag (TL1 and TL2 requests alike); schema tag uniqueness keeps it distinct from the wrappers
	tag := verifU32()
	verifAssume(!verifIsWrapperTag(tag))
	tail := verifBytesN(verifLen(verifParam("bodyN", 4)))
	body := []byte{byte(tag), byte(tag >> 8), byte(tag >> 16), byte(tag >> 24)}
	body = append(body, tail...)
	req.Body = append([]byte(nil), body...)
	want := req.Extra.WriteTL1(nil)
	err := preparePacket(&req)
	verifAssert(err == nil, "prepare-ok")
	if err != nil {
		return
	}
	wire := append([]byte(nil), req.Body[req.extraStart:]...)
	wire = append(wire, req.Body[:req.extraStart]...)
	hctx := &HandlerContext{Request: wire}
	opts := &ServerOptions{DefaultResponseTimeout: 7 * time.Second}
	err = hctx.ParseInvokeReq(opts)
	verifCover("parsed")
	verifAssert(err == nil, "server-parses-what-client-wrote")
	if err != nil {
		return
	}
	verifAssert(hctx.queryID == req.queryID, "query-id-unchanged")
	verifAssert(hctx.actorID == req.ActorID, "actor-id-unchanged")
	verifAssert(hctx.bodyFormatTL2 == req.BodyFormatTL2, "body-format-unchanged")
	verifAssert(hctx.reqTag == tag, "request-tag-found")
	verifAssert(verifBytesEq(hctx.Request, body), "body-unchanged")
	got := hctx.RequestExtra.WriteTL1(nil)
	verifAssert(verifBytesEq(got, want), "request-extra-unchanged")
	verifAssert(hctx.requestExtraFieldsmask == req.Extra.Flags, "flags-copied")
	verifAssert(hctx.noResult == req.Extra.IsSetNoResult(), "no-result-derived")
	if req.Extra.CustomTimeoutMs > 0 {
		verifAssert(hctx.timeout == time.Duration(req.Extra.CustomTimeoutMs)*time.Millisecond, "custom-timeout-used")
	} else {
		verifAssert(hctx.timeout == opts.DefaultResponseTimeout, "default-timeout-used")
	}
}

func verifIsResultWrapperTag(t uint32) bool {
	return t == (tl.ReqResultHeader{}).TLTag() || t == (tl.ReqError{}).TLTag() || t == (tl.RpcReqResultError{}).TLTag() || t == (tl.RpcReqResultErrorWrapped{}).TLTag()
}

type verifWrapErr struct{ err error }

func (w verifWrapErr) Error() string { return "while handling: " + w.err.Error() }
func (w verifWrapErr) Unwrap() error { return w.err }

// VerifC40Response: server prepareResponseBody -> wire order -> client header strip + parseResponseExtra.
func VerifC40Response() {
	hctx := &HandlerContext{}
	hctx.queryID = int64(verifU64())
	hctx.requestExtraFieldsmask = verifU32()
	hctx.bodyFormatTL2 = verifBool()
	hctx.ResponseExtra = verifAnyRespExtra()
	sentExtra := hctx.ResponseExtra
	sentExtra.Flags &= hctx.requestExtraFieldsmask // documented: only fields the client asked for are returned
	wantExtra := sentExtra.WriteTL1(nil)
	body := verifBytesN(verifLen(verifParam("bodyN", 4)) + 4)
	if !hctx.bodyFormatTL2 {
		// a TL1 result starts with a boxed result tag, distinct from the result wrappers by schema tag uniqueness
		verifAssume(!verifIsResultWrapperTag(verifLE32(body)))
		verifAssume(verifLE32(body) != (tl.RpcTL2Marker{}).TLTag() || true)
	}
	hctx.Response = append([]byte(nil), body...)
	var herr error
	var code int32
	var desc string
	isErr := verifBool()
	if isErr {
		code = verifI32()
		desc = verifStringN(verifLen(2))
		herr = &Error{Code: code, Description: desc}
		if verifBool() {
			// handlers commonly return the rpc error wrapped (fmt.Errorf("...: %w", err)): code and description must still arrive
			verifCover("wrapped-error")
			herr = verifWrapErr{herr}
		}
	}
	err := hctx.prepareResponseBody(herr)
	verifAssert(err == nil, "prepare-ok")
	if err != nil {
		return
	}
	wire := append([]byte(nil), hctx.Response[hctx.extraStart:]...)
	wire = append(wire, hctx.Response[:hctx.extraStart]...)
	// client side (handlePacket, packet type RpcReqResultHeader): strip the header, then parse extras
	var header tl.RpcReqResultHeader
	rest, err := header.ReadTL1(wire)
	verifAssert(err == nil && header.QueryId == hctx.queryID, "query-id-unchanged")
	if err != nil {
		return
	}
	var gotExtra ResponseExtra
	rbody, perr := parseResponseExtra(hctx.bodyFormatTL2, &gotExtra, rest)
	verifCover("parsed")
	verifAssert(verifBytesEq(gotExtra.WriteTL1(nil), wantExtra), "response-extra-unchanged")
	if isErr {
		e, ok := perr.(*Error)
		verifAssert(ok, "error-arrives-as-rpc-error")
		if ok {
			wantCode := code
			if wantCode == 0 {
				wantCode = -4000 // tlerrorcodes.Unknown: documented substitution for a zero code
			}
			verifAssert(e.Code == wantCode, "error-code-unchanged")
			verifAssert(e.Description == desc, "error-description-unchanged")
		}
		return
	}
	verifAssert(perr == nil, "success-arrives-as-success")
	if perr == nil {
		verifAssert(verifBytesEq(rbody, body), "body-unchanged")
	}
}
