//go:build verif

package udp

import (
	"github.com/VKCOM/tl/pkg/rpc/internal/gen/tlnetUdpPacket"
)

func init() {
	verifRegister("VerifC37AddStep", VerifC37AddStep)
	verifRegister("VerifC37History", VerifC37History)
	verifRegister("VerifC37BuildAck", VerifC37BuildAck)
	verifRegister("VerifC37BuildNegativeAck", VerifC37BuildNegativeAck)
}

const verifNoWrap = 0xffffffff

// arbitrary structure: symbolic prefix and m nodes with symbolic bounds
func verifAcksAny(m int) *AcksToSend {
	a := &AcksToSend{ackPrefix: verifU32()}
	var prev *ackRange
	for i := 0; i < m; i++ {
		n := &ackRange{ackFrom: verifU32(), ackTo: verifU32()}
		if prev == nil {
			a.firstRange = n
		} else {
			prev.next = n
		}
		prev = n
	}
	return a
}

// representation invariant as one boolean (no forking): prefix < from_1, from_i <= to_i, to_i+1 < from_{i+1}, no wrap
func verifAcksInv(a *AcksToSend) bool {
	ok := true
	r := a.firstRange
	if r != nil {
		ok = verifAnd(ok, a.ackPrefix < r.ackFrom)
	}
	for ; r != nil; r = r.next {
		ok = verifAnd(ok, r.ackFrom <= r.ackTo)
		ok = verifAnd(ok, r.ackTo < verifNoWrap)
		if r.next != nil {
			ok = verifAnd(ok, r.ackTo+1 < r.next.ackFrom)
		}
	}
	return ok
}

func verifAcksMember(a *AcksToSend, x uint32) bool {
	m := x < a.ackPrefix
	for r := a.firstRange; r != nil; r = r.next {
		m = verifOr(m, verifAnd(r.ackFrom <= x, x <= r.ackTo))
	}
	return m
}

func verifAcksCount(a *AcksToSend) int {
	n := 0
	for r := a.firstRange; r != nil; r = r.next {
		n++
	}
	return n
}

// one inductive step from an arbitrary valid state
func VerifC37AddStep() {
	M := verifParam("nodes", 3)
	m := verifLen(M)
	a := verifAcksAny(m)
	verifAssume(verifAcksInv(a))
	x := verifU32()
	pre := verifAcksMember(a, x)
	f, t := verifU32(), verifU32()
	verifAssume(f <= t && t < verifNoWrap)
	a.AddAckRange(f, t)
	verifCover("step")
	verifAssert(verifAcksInv(a), "invariant-preserved")
	post := verifAcksMember(a, x)
	verifAssert(post == verifOr(pre, verifAnd(f <= x, x <= t)), "set-is-union")
	verifAssert(verifAcksCount(a) <= m+1, "node-count")
	a.checkInvariantsCommon(func(s string) { verifAssert(false, "checkInvariantsCommon-silent") })
}

// histories from the empty structure
func VerifC37History() {
	K := verifParam("ops", 3)
	a := &AcksToSend{}
	x := verifU32()
	want := false
	for i := 0; i < K; i++ {
		f, t := verifU32(), verifU32()
		verifAssume(f <= t && t < verifNoWrap)
		a.AddAckRange(f, t)
		want = verifOr(want, verifAnd(f <= x, x <= t))
		verifAssert(verifAcksInv(a), "invariant")
		verifAssert(verifAcksMember(a, x) == want, "set-is-union-of-history")
	}
	verifCover("done")
}

func VerifC37BuildAck() {
	M := verifParam("nodes", 3)
	W := verifParam("ackwidth", 3)
	m := verifLen(M)
	a := verifAcksAny(m)
	verifAssume(verifAcksInv(a))
	// bound the width of the ranges that are expanded element-wise into AckSet
	if a.firstRange != nil {
		for r := a.firstRange.next; r != nil; r = r.next {
			verifAssume(r.ackTo-r.ackFrom < uint32(W))
		}
	}
	var enc tlnetUdpPacket.EncHeader
	enc.Flags = verifU32() &^ (1<<13 | 1<<14 | 1<<15)
	a.BuildAck(&enc)
	x := verifU32()
	mem := verifAcksMember(a, x)
	if enc.IsSetPacketAckPrefix() {
		verifCover("prefix")
		verifAssert(verifImplies(x <= enc.PacketAckPrefix, mem), "prefix-acks-only-members")
		verifAssert(enc.PacketAckPrefix+1 == a.ackPrefix, "prefix-value")
	} else {
		verifAssert(a.ackPrefix == 0, "no-prefix-only-when-empty")
	}
	if enc.IsSetPacketAckFrom() {
		verifCover("range")
		verifAssert(enc.IsSetPacketAckTo(), "from-and-to-together")
		verifAssert(verifImplies(verifAnd(enc.PacketAckFrom <= x, x <= enc.PacketAckTo), mem), "range-acks-only-members")
	} else {
		verifAssert(a.firstRange == nil, "no-range-only-without-holes")
	}
	if enc.IsSetPacketAckSet() {
		verifCover("set")
		verifAssert(len(enc.PacketAckSet) > 0 && len(enc.PacketAckSet) <= MaxAckSet, "set-size")
		for _, e := range enc.PacketAckSet {
			verifAssert(verifAcksMember(a, e), "set-elements-are-members")
		}
	} else {
		verifAssert(a.firstRange == nil || a.firstRange.next == nil, "no-set-only-with-single-range")
	}
	verifAssert(verifAcksInv(a), "structure-unchanged-valid")
}

func VerifC37BuildNegativeAck() {
	M := verifParam("nodes", 3)
	m := verifLen(M)
	a := verifAcksAny(m)
	verifAssume(verifAcksInv(a))
	var req tlnetUdpPacket.ResendRequest
	a.BuildNegativeAck(&req)
	x := verifU32()
	mem := verifAcksMember(a, x)
	if a.firstRange == nil {
		verifCover("no-holes")
		verifAssert(len(req.Ranges) == 0, "nothing-requested-without-holes")
		return
	}
	verifCover("holes")
	verifAssert(len(req.Ranges) == m, "one-request-per-hole")
	last := a.firstRange
	for last.next != nil {
		last = last.next
	}
	for _, rg := range req.Ranges {
		verifAssert(rg.PacketNumFrom <= rg.PacketNumTo, "request-nonempty")
		verifAssert(verifImplies(verifAnd(rg.PacketNumFrom <= x, x <= rg.PacketNumTo), !mem), "never-requests-recorded")
		verifAssert(rg.PacketNumFrom >= a.ackPrefix && rg.PacketNumTo < last.ackFrom, "requests-within-holes")
	}
}

