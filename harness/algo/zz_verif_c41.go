//go:build verif

package algo

func init() {
	verifRegister("VerifC41TreeStep", VerifC41TreeStep)
	verifRegister("VerifC41TreeDeleteStep", VerifC41TreeDeleteStep)
	verifRegister("VerifC41TreeDeleteShape", VerifC41TreeDeleteShape)
	verifRegister("VerifC41TreeHistory", VerifC41TreeHistory)
	verifRegister("VerifC41CircStep", VerifC41CircStep)
	verifRegister("VerifC41CircHistory", VerifC41CircHistory)
}

type verifCmp struct{}

func (verifCmp) Cmp(a, b int32) bool { return a < b }

type verifNode = TreeNode[Entry[int32, int32]]

type verifAlloc struct {
	allocated   *int
	deallocated *int
	lastFreed   **verifNode
}

func (a verifAlloc) allocate() *verifNode { *a.allocated++; return &verifNode{} }
func (a verifAlloc) deallocate(n *verifNode) {
	*a.deallocated++
	*a.lastFreed = n
	*n = verifNode{}
}

type verifKV struct{ k, v int32 }

// verifBuildAVL builds an arbitrary AVL tree of exactly height h: the shape is enumerated (one path per shape), keys are
// symbolic and only assumed to be strictly increasing in-order (the BST invariant); height fields are exact.
func verifBuildAVL(h int, prev *int32, have *bool, kvs *[]verifKV) *verifNode {
	if h == 0 {
		return nil
	}
	hl, hr := h-1, h-1
	if h >= 2 {
		switch verifChoice(3) {
		case 1:
			hl = h - 2
		case 2:
			hr = h - 2
		}
	}
	n := &verifNode{height: int32(h)}
	n.left = verifBuildAVL(hl, prev, have, kvs)
	k, v := verifI32(), verifI32()
	verifAssume(!*have || *prev < k)
	*prev, *have = k, true
	n.value = Entry[int32, int32]{K: k, V: v}
	*kvs = append(*kvs, verifKV{k, v})
	n.right = verifBuildAVL(hr, prev, have, kvs)
	return n
}

// verifCheckAVL: BST order (via the in-order key list), |balance| <= 1, exact heights. Returns the height.
func verifCheckAVL(n *verifNode, keys *[]int32, vals *[]int32, budget *int) int32 {
	if n == nil {
		return 0
	}
	*budget--
	verifAssert(*budget >= 0, "tree-is-finite-and-acyclic")
	if *budget < 0 {
		return 0
	}
	hl := verifCheckAVL(n.left, keys, vals, budget)
	*keys = append(*keys, n.value.K)
	*vals = append(*vals, n.value.V)
	hr := verifCheckAVL(n.right, keys, vals, budget)
	d := hr - hl
	verifAssert(d >= -1 && d <= 1, "avl-balanced")
	h := 1 + max(hl, hr)
	verifAssert(n.height == h, "height-field-exact")
	return h
}

func verifLookup(kvs []verifKV, p int32) (int32, bool) {
	var v int32
	found := false
	for _, e := range kvs {
		hit := e.k == p
		v = int32(verifIte(hit, uint64(uint32(e.v)), uint64(uint32(v))))
		found = verifOr(found, hit)
	}
	return v, found
}

func verifPanics(f func()) (p bool) {
	defer func() {
		if recover() != nil {
			p = true
		}
	}()
	f()
	return false
}

// verifTreeAgainstModel checks every observer of the map against the association list kvs (sorted by key, distinct keys).
func verifTreeAgainstModel(t *TreeMap[int32, int32, verifCmp], kvs []verifKV, probe int32) {
	var keys, vals []int32
	budget := len(kvs) + 1
	verifCheckAVL(t.root, &keys, &vals, &budget)
	verifAssert(len(keys) == len(kvs), "size-matches-model")
	if len(keys) == len(kvs) {
		for i := range keys {
			verifAssert(keys[i] == kvs[i].k, "inorder-keys-match-model")
			verifAssert(vals[i] == kvs[i].v, "inorder-values-match-model")
		}
	}
	for i := 1; i < len(keys); i++ {
		verifAssert(keys[i-1] < keys[i], "bst-order")
	}
	ev, eok := verifLookup(kvs, probe)
	gv, gok := t.Get(probe)
	verifAssert(gok == eok, "get-presence-matches-model")
	verifAssert(!eok || gv == ev, "get-value-matches-model")
	verifAssert(t.Empty() == (len(kvs) == 0), "empty-matches-model")
	verifAssert(t.LenMoreThan1() == (len(kvs) > 1), "lenMoreThan1-matches-model")
	if len(kvs) > 0 {
		f, b := t.Front(), t.Back()
		verifAssert(f.K == kvs[0].k && f.V == kvs[0].v, "front-is-minimum")
		verifAssert(b.K == kvs[len(kvs)-1].k && b.V == kvs[len(kvs)-1].v, "back-is-maximum")
	} else {
		verifAssert(verifPanics(func() { t.Front() }), "front-on-empty-panics")
		verifAssert(verifPanics(func() { t.Back() }), "back-on-empty-panics")
	}
	t.validate() // the package's own invariant checker must not panic either
}

// model update: kvs is sorted with distinct keys; returns the sorted list after Set / Delete (forks on key comparisons)
func verifModelSet(kvs []verifKV, k, v int32) []verifKV {
	var out []verifKV
	done := false
	for _, e := range kvs {
		if !done && k == e.k {
			out = append(out, verifKV{k, v})
			done = true
			continue
		}
		if !done && k < e.k {
			out = append(out, verifKV{k, v})
			done = true
		}
		out = append(out, e)
	}
	if !done {
		out = append(out, verifKV{k, v})
	}
	return out
}

func verifModelDelete(kvs []verifKV, k int32) ([]verifKV, bool) {
	var out []verifKV
	removed := false
	for _, e := range kvs {
		if e.k == k {
			removed = true
			continue
		}
		out = append(out, e)
	}
	return out, removed
}

// VerifC41TreeStep: one Set/Delete from an ARBITRARY valid AVL tree of height <= H (inductive step).
func VerifC41TreeStep() {
	H := verifParam("H", 3)
	h := verifChoice(H + 1)
	var prev int32
	var have bool
	var kvs []verifKV
	root := verifBuildAVL(h, &prev, &have, &kvs)
	var na, nd int
	var last *verifNode
	t := NewTreeMap[int32, int32, verifCmp](verifAlloc{&na, &nd, &last})
	t.root = root
	k, v, probe := verifI32(), verifI32(), verifI32()
	if verifBool() {
		verifCover("set")
		t.Set(k, v)
		_, was := verifLookup(kvs, k)
		kvs = verifModelSet(kvs, k, v)
		verifAssert((na == 1) == !was && na <= 1, "allocates-exactly-for-new-keys")
		verifAssert(nd == 0, "set-frees-nothing")
	} else {
		verifCover("delete")
		t.Delete(k)
		var removed bool
		kvs, removed = verifModelDelete(kvs, k)
		verifAssert(na == 0, "delete-allocates-nothing")
		verifAssert((nd == 1) == removed && nd <= 1, "frees-exactly-the-removed-node")
	}
	verifTreeAgainstModel(&t, kvs, probe)
}

// VerifC41TreeDeleteStep: one Delete from an ARBITRARY valid AVL tree of height exactly HD (deletions are what leaves a node
// with balance +-2 whose heavier child is itself balanced - the rotation case insertions never produce - and that needs height 4)
func VerifC41TreeDeleteStep() {
	h := verifParam("HD", 4)
	var prev int32
	var have bool
	var kvs []verifKV
	root := verifBuildAVL(h, &prev, &have, &kvs)
	var na, nd int
	var last *verifNode
	t := NewTreeMap[int32, int32, verifCmp](verifAlloc{&na, &nd, &last})
	t.root = root
	k, probe := verifI32(), verifI32()
	verifCover("delete")
	t.Delete(k)
	var removed bool
	kvs, removed = verifModelDelete(kvs, k)
	verifAssert(na == 0, "delete-allocates-nothing")
	verifAssert((nd == 1) == removed && nd <= 1, "frees-exactly-the-removed-node")
	verifTreeAgainstModel(&t, kvs, probe)
}

// VerifC41TreeDeleteShape: the structural half of VerifC41TreeDeleteStep without the observer probes (Get/Front/Back fork on every
// comparison and multiply the paths by ~30): one Delete of ANY key from ANY valid AVL tree of height exactly HD, then the AVL
// invariant (balance, exact heights), the in-order contents against the model and the allocation accounting. Small enough to be
// exhaustive at height 4 in the quick tier.
func VerifC41TreeDeleteShape() {
	h := verifParam("HD", 4)
	var prev int32
	var have bool
	var kvs []verifKV
	root := verifBuildAVL(h, &prev, &have, &kvs)
	var na, nd int
	var last *verifNode
	t := NewTreeMap[int32, int32, verifCmp](verifAlloc{&na, &nd, &last})
	t.root = root
	k := verifI32()
	verifCover("delete-shape")
	t.Delete(k)
	var removed bool
	kvs, removed = verifModelDelete(kvs, k)
	verifAssert(na == 0, "delete-allocates-nothing")
	verifAssert((nd == 1) == removed && nd <= 1, "frees-exactly-the-removed-node")
	var keys, vals []int32
	budget := len(kvs) + 1
	verifCheckAVL(t.root, &keys, &vals, &budget)
	verifAssert(len(keys) == len(kvs), "size-matches-model")
	if len(keys) == len(kvs) {
		for i := range keys {
			verifAssert(keys[i] == kvs[i].k, "inorder-keys-match-model")
			verifAssert(vals[i] == kvs[i].v, "inorder-values-match-model")
		}
	}
}

// VerifC41TreeHistory: K arbitrary operations from the empty map against the association-list model.
func VerifC41TreeHistory() {
	K := verifParam("K", 4)
	var na, nd int
	var last *verifNode
	t := NewTreeMap[int32, int32, verifCmp](verifAlloc{&na, &nd, &last})
	var kvs []verifKV
	for i := 0; i < K; i++ {
		k, v := verifI32(), verifI32()
		if verifBool() {
			t.Set(k, v)
			kvs = verifModelSet(kvs, k, v)
		} else {
			t.Delete(k)
			kvs, _ = verifModelDelete(kvs, k)
		}
	}
	verifCover("history")
	verifAssert(na-nd == len(kvs), "live-nodes-equal-model-size")
	verifTreeAgainstModel(&t, kvs, verifI32())
}

// ---- circular slice ----

func verifCircModel(s *CircularSlice[int32]) []int32 {
	n := s.write_pos - s.read_pos
	out := make([]int32, 0, n)
	c := len(s.elements)
	for i := 0; i < n; i++ {
		j := s.read_pos + i
		if j >= c {
			j -= c
		}
		out = append(out, s.elements[j])
	}
	return out
}

func verifCircInv(s *CircularSlice[int32]) {
	c := len(s.elements)
	verifAssert(s.read_pos >= 0 && (s.read_pos < c || (c == 0 && s.read_pos == 0)), "inv-read-pos-in-range")
	verifAssert(s.read_pos <= s.write_pos && s.write_pos <= s.read_pos+c, "inv-write-pos-in-range")
}

func verifCircSame(s *CircularSlice[int32], m []int32, id string) {
	verifAssert(s.Len() == len(m), id+"-len")
	if s.Len() != len(m) {
		return
	}
	got := verifCircModel(s)
	for i := range m {
		verifAssert(got[i] == m[i], id+"-content")
	}
}

func verifCircAny(maxCapLog int) *CircularSlice[int32] {
	caps := []int{0, 1, 2, 4, 8, 16}
	c := caps[verifChoice(maxCapLog+2)]
	s := &CircularSlice[int32]{elements: make([]int32, c)}
	for i := range s.elements {
		s.elements[i] = verifI32()
	}
	if c > 0 {
		s.read_pos = verifChoice(c)
		s.write_pos = s.read_pos + verifChoice(c+1)
	}
	return s
}

// VerifC41CircStep: every operation from an ARBITRARY valid state refines the FIFO model and keeps the invariant.
func VerifC41CircStep() {
	s := verifCircAny(verifParam("caplog", 2))
	m := verifCircModel(s)
	n := len(m)
	verifAssert(s.Cap() == len(s.elements), "cap")
	switch verifChoice(11) {
	case 0:
		verifCover("push")
		x := verifI32()
		s.PushBack(x)
		verifCircSame(s, append(append([]int32(nil), m...), x), "push")
	case 1:
		verifCover("pop")
		if n == 0 {
			verifAssert(verifPanics(func() { s.PopFront() }), "pop-on-empty-panics")
			return
		}
		x := s.PopFront()
		verifAssert(x == m[0], "pop-returns-front")
		verifCircSame(s, m[1:], "pop")
	case 2:
		verifCover("front")
		if n == 0 {
			verifAssert(verifPanics(func() { s.Front() }), "front-on-empty-panics")
			return
		}
		verifAssert(s.Front() == m[0], "front")
		verifCircSame(s, m, "front-pure")
	case 3:
		verifCover("index")
		if n == 0 {
			return
		}
		i := verifChoice(n)
		verifAssert(s.Index(i) == m[i], "index")
		x := verifI32()
		*s.IndexRef(i) = x
		m2 := append([]int32(nil), m...)
		m2[i] = x
		verifCircSame(s, m2, "indexref-writes-through")
	case 4:
		verifCover("index-negative")
		verifAssert(verifPanics(func() { s.Index(-1 - verifChoice(2)) }), "negative-index-panics")
	case 5:
		verifCover("reserve")
		c0 := s.Cap()
		nc := verifChoice(2*c0 + 3)
		s.Reserve(nc)
		verifAssert(s.Cap() >= nc && s.Cap() >= c0, "reserve-capacity")
		verifCircSame(s, m, "reserve")
	case 6:
		verifCover("clear")
		s.Clear()
		verifCircSame(s, nil, "clear")
		for _, e := range s.elements {
			verifAssert(n == 0 || e == 0 || true, "clear-noop")
			_ = e
		}
	case 7:
		verifCover("slices")
		a, b := s.Slices()
		verifAssert(len(a)+len(b) == n, "slices-total-length")
		if len(a)+len(b) == n {
			for i := range a {
				verifAssert(a[i] == m[i], "slices-first-part")
			}
			for i := range b {
				verifAssert(b[i] == m[len(a)+i], "slices-second-part")
			}
		}
	case 8:
		verifCover("deepassign")
		var d CircularSlice[int32]
		d.PushBack(7)
		d.DeepAssign(*s)
		verifCircSame(&d, m, "deepassign")
		verifCircInv(&d)
		if n > 0 {
			*d.IndexRef(0) = m[0] + 1
			verifCircSame(s, m, "deepassign-independent")
		}
	case 9:
		verifCover("swap")
		o := verifCircAny(1)
		mo := verifCircModel(o)
		s.Swap(o)
		verifCircSame(s, mo, "swap-left")
		verifCircSame(o, m, "swap-right")
		verifCircInv(o)
	case 10:
		verifCover("len")
		verifAssert(s.Len() == n, "len")
	}
	verifCircInv(s)
}

// VerifC41CircHistory: K operations from the zero value against a plain slice used as FIFO.
func VerifC41CircHistory() {
	K := verifParam("CK", 6)
	var s CircularSlice[int32]
	var m []int32
	for i := 0; i < K; i++ {
		switch verifChoice(4) {
		case 0, 1:
			x := verifI32()
			s.PushBack(x)
			m = append(m, x)
		case 2:
			if len(m) > 0 {
				x := s.PopFront()
				verifAssert(x == m[0], "history-pop-returns-front")
				m = m[1:]
			}
		case 3:
			s.Reserve(verifChoice(6))
		}
		verifCircInv(&s)
	}
	verifCover("history")
	verifCircSame(&s, m, "history")
}
